package props

// C20 — errors are well formed.
//
// Error-biased generation at every entry point (lexing; both parsers with and without token
// limits; schema loading; validation with every rule; variable coercion); every error comes back
// from the worker ops of impl/errops.go with message, rule, locations, path, extensions, its
// json.Marshal and its Error() string.
//
// Direct-check signatures (the property on the real code):
//   empty-message:<entry>                   an error with an empty message
//   validation-error-without-rule           a validation error whose Rule is ""
//   validation-error-without-location       a validation error with no location
//   location-not-positive:<entry>           a location with line < 1 or column < 1
//   error-without-file:<entry>              an error located in a NAMED source without extensions.file = that name
//   limit-error-without-file                the token-limit error (plain error: no location, no file)   [R20a]
//   unnamed-source-with-file:<entry>        extensions.file present although the source has no name
//   json-shape:<what>:<entry>               the JSON encoding is not a GraphQL response error object
//   json-marshal-fails:<entry>              json.Marshal(err) failed
//   path-roundtrip:index-beyond-2^53        Unmarshal(Marshal(path)) ≠ path because an index went through float64 [R20b]
//   path-roundtrip:<other>                  any other path that does not round-trip
//   error-crash:<entry>                     an unexpected reply of a worker op (panics / crashes / timeouts of the library are
//                                           not errors RETURNED: they are counted in the evidence and belong to C01 / C02 / C14)
// Correspondence signatures (Lean model GqlModel/Errors.lean, ops pathrt pathenc pathstr errjson errstr):
//   path-model-differs  path-string-model-differs  error-json-model-differs  error-string-model-differs
//   shape-verdict-differs (Lean responseShape vs the Go shape judge)
// Regenerated table: generated-table-stale:ErrSites (the committed Gen/ErrSites.lean differs from a fresh extraction)

import (
	"bytes"
	"encoding/json"
	"fmt"
	"os"
	"path/filepath"
	"regexp"
	"sort"
	"strconv"
	"strings"
	"time"
	"verifharness/internal/pool"

	"verifharness/internal/extract"
	"verifharness/internal/gen"
	"verifharness/internal/impl"
	"verifharness/internal/rng"
)

type errRecord struct {
	kind, msg, rule, locs, path, ext, jsonHex, errStr string
}

func parseErrReply(o string) ([]errRecord, string) {
	if o == "OK" {
		return nil, "OK"
	}
	if !strings.HasPrefix(o, "ERR;") {
		return nil, o
	}
	var out []errRecord
	for _, r := range strings.Split(o[4:], ";") {
		p := strings.Split(r, "|")
		if len(p) != 8 {
			return nil, "MALFORMED " + r
		}
		out = append(out, errRecord{p[0], unhexS(p[1]), unhexS(p[2]), p[3], p[4], p[5], p[6], unhexS(p[7])})
	}
	return out, "ERR"
}

// template coverage --------------------------------------------------------------------------

type errTemplate struct {
	format string
	re     *regexp.Regexp
	lit    int // number of literal characters (specificity)
	sites  []string
	hits   int
}

var verbRe = regexp.MustCompile(`%[-+# 0]*[0-9]*(\.[0-9]+)?[a-zA-Z]`)

func buildTemplates(sites []extract.ErrSite) []*errTemplate {
	by := map[string]*errTemplate{}
	var order []string
	for _, s := range sites {
		if !s.Literal || strings.HasPrefix(s.File, "ast/dumper.go") {
			continue
		}
		t, ok := by[s.Format]
		if !ok {
			lit := verbRe.ReplaceAllString(s.Format, "")
			var sb strings.Builder
			sb.WriteString(`(?s)^`)
			last := 0
			for _, m := range verbRe.FindAllStringIndex(s.Format, -1) {
				sb.WriteString(regexp.QuoteMeta(s.Format[last:m[0]]))
				sb.WriteString(`.*`)
				last = m[1]
			}
			sb.WriteString(regexp.QuoteMeta(s.Format[last:]))
			t = &errTemplate{format: s.Format, re: regexp.MustCompile(sb.String()), lit: len(lit)}
			by[s.Format] = t
			order = append(order, s.Format)
		}
		t.sites = append(t.sites, fmt.Sprintf("%s:%d", s.File, s.Line))
	}
	out := make([]*errTemplate, 0, len(order))
	for _, f := range order {
		out = append(out, by[f])
	}
	// most specific first
	sort.SliceStable(out, func(i, j int) bool { return out[i].lit > out[j].lit })
	return out
}

type c20State struct {
	c           *Ctx
	templates   []*errTemplate
	findings    map[string]*c19Finding
	errsSeen    int
	byEntry     map[string]int
	distinct    map[string]errRecord // distinct (msg, path, locs, ext) → record, for the model tie
	unmatched   map[string]int
	crashes     map[string]int
	crashSample map[string]string
}

func (s *c20State) keep(kind, sig, what, in string, replay map[string]any) {
	f, ok := s.findings[sig]
	if ok {
		f.n++
		if len(f.in) <= len(in) {
			return
		}
		s.findings[sig] = &c19Finding{kind, what, in, replay, f.n}
		return
	}
	s.findings[sig] = &c19Finding{kind, what, in, replay, 1}
}

func (s *c20State) cover(msg string) {
	for _, t := range s.templates {
		if t.lit == 0 {
			break
		}
		if t.re.MatchString(msg) {
			t.hits++
			return
		}
	}
	k := msg
	if i := strings.IndexAny(k, "\"0123456789"); i > 0 {
		k = k[:i] + "…"
	}
	if len(k) > 60 {
		k = k[:60]
	}
	s.unmatched[k]++
}

// jsonShapeViolations judges one encoded error against the GraphQL response format.
func jsonShapeViolations(js []byte) []string {
	dec := json.NewDecoder(bytes.NewReader(js))
	dec.UseNumber()
	var m map[string]interface{}
	if err := dec.Decode(&m); err != nil {
		return []string{"not-an-object"}
	}
	var out []string
	isInt := func(v interface{}) (int64, bool) {
		n, ok := v.(json.Number)
		if !ok {
			return 0, false
		}
		i, err := strconv.ParseInt(string(n), 10, 64)
		return i, err == nil
	}
	if msg, ok := m["message"].(string); !ok {
		out = append(out, "message-not-a-string")
	} else if msg == "" {
		out = append(out, "message-empty")
	}
	for k, v := range m {
		switch k {
		case "message":
		case "locations":
			arr, ok := v.([]interface{})
			if !ok {
				out = append(out, "locations-not-an-array")
				continue
			}
			for _, l := range arr {
				lm, ok := l.(map[string]interface{})
				if !ok {
					out = append(out, "location-not-an-object")
					continue
				}
				for _, key := range []string{"line", "column"} {
					x, present := lm[key]
					if !present {
						out = append(out, "location-without-"+key)
						continue
					}
					if i, ok := isInt(x); !ok {
						out = append(out, "location-"+key+"-not-an-integer")
					} else if i < 1 {
						out = append(out, "location-"+key+"-not-positive")
					}
				}
				if len(lm) > 2 {
					out = append(out, "location-extra-key")
				}
			}
		case "path":
			arr, ok := v.([]interface{})
			if !ok {
				out = append(out, "path-not-an-array")
				continue
			}
			for _, e := range arr {
				if _, isStr := e.(string); isStr {
					continue
				}
				if _, ok := isInt(e); !ok {
					out = append(out, "path-element-not-name-or-index")
				}
			}
		case "extensions":
			if _, ok := v.(map[string]interface{}); !ok {
				out = append(out, "extensions-not-an-object")
			}
		default:
			out = append(out, "unknown-key")
		}
	}
	sort.Strings(out)
	return out
}

type judgeCtx struct {
	entry      string   // lex | parse-query | parse-schema | load | validate | vars
	names      []string // names of the sources the input was read from ("" = unnamed)
	otherNames []string // named sources an error may legitimately point into as well (the schema's, for validation)
	limit      int      // token limit (parsers), -1 none
	validation bool
	input      string
	replay     map[string]any
}

func (s *c20State) judge(recs []errRecord, j judgeCtx) {
	for _, r := range recs {
		s.errsSeen++
		s.byEntry[j.entry]++
		s.cover(r.msg)
		in := j.input
		if r.msg == "" {
			s.keep("spec", "empty-message:"+j.entry, fmt.Sprintf("%s of %q returned an error with an empty message (Error() = %q)", j.entry, clip(in, 200), r.errStr), in, j.replay)
		}
		named := false
		for _, n := range j.names {
			if n != "" {
				named = true
			}
		}
		if r.kind == "plain" {
			// not a *gqlerror.Error: no location, no file, no JSON form of its own
			if named {
				sig := "error-without-file:" + j.entry
				if strings.HasPrefix(r.msg, "exceeded token limit") {
					sig = "limit-error-without-file"
				}
				s.keep("spec", sig, fmt.Sprintf("%s of the named source %v (limit %d) %q returned a plain error %q: no location, no extensions.file", j.entry, j.names, j.limit, clip(in, 120), r.msg), in, j.replay)
			}
			continue
		}
		key := r.msg + "\x00" + r.path + "\x00" + r.locs + "\x00" + r.ext
		if _, ok := s.distinct[key]; !ok && len(s.distinct) < 200000 {
			s.distinct[key] = r
		}
		// locations
		if r.locs != "-" {
			for _, lc := range strings.Split(r.locs, ",") {
				p := strings.Split(lc, ":")
				l, _ := strconv.Atoi(p[0])
				c, _ := strconv.Atoi(p[1])
				if l < 1 || c < 1 {
					s.keep("spec", "location-not-positive:"+j.entry, fmt.Sprintf("%s of %q: error %q has location line %d column %d", j.entry, clip(in, 200), r.msg, l, c), in, j.replay)
				}
			}
		}
		if j.validation {
			if r.rule == "" {
				s.keep("spec", "validation-error-without-rule", fmt.Sprintf("validating %q: error %q names no rule", clip(in, 200), r.msg), in, j.replay)
			}
			if r.locs == "-" {
				s.keep("spec", "validation-error-without-location", fmt.Sprintf("validating %q: error %q (rule %s) has no location", clip(in, 200), r.msg, r.rule), in, j.replay)
			}
		}
		// file
		file, hasFile := "", false
		if strings.HasPrefix(r.ext, "f") {
			file, hasFile = unhexS(r.ext[1:]), true
		}
		if named && j.entry != "vars" {
			okFile := false
			for _, n := range append(append([]string(nil), j.names...), j.otherNames...) {
				if n != "" && file == n {
					okFile = true
				}
			}
			if !okFile {
				s.keep("spec", "error-without-file:"+j.entry, fmt.Sprintf("%s of the named source(s) %v %q: error %q at %s carries extensions %s", j.entry, j.names, clip(in, 120), r.msg, r.locs, r.ext), in, j.replay)
			}
		}
		inOther := false
		for _, n := range j.otherNames {
			if n != "" && n == file {
				inOther = true
			}
		}
		if !named && hasFile && !inOther {
			s.keep("spec", "unnamed-source-with-file:"+j.entry, fmt.Sprintf("%s of an unnamed source %q: error %q carries file %q", j.entry, clip(in, 120), r.msg, file), in, j.replay)
		}
		// JSON
		if strings.HasPrefix(r.jsonHex, "!") {
			s.keep("spec", "json-marshal-fails:"+j.entry, fmt.Sprintf("%s of %q: json.Marshal of error %q failed: %s", j.entry, clip(in, 120), r.msg, unhexS(r.jsonHex[1:])), in, j.replay)
			continue
		}
		js, _ := impl.UnhexW(r.jsonHex)
		for _, v := range jsonShapeViolations(js) {
			if v == "message-empty" {
				continue // reported as empty-message
			}
			s.keep("spec", "json-shape:"+v+":"+j.entry, fmt.Sprintf("%s of %q: error %q encodes as %s", j.entry, clip(in, 120), r.msg, js), in, j.replay)
		}
	}
}

// run sends worker requests and judges every reply.
func (s *c20State) run(reqs []string, ctxs []judgeCtx) {
	outs := s.c.Worker.Map(reqs)
	for i, o := range outs {
		j := ctxs[i]
		if j.replay == nil {
			j.replay = map[string]any{}
		}
		j.replay["request"] = reqs[i]
		recs, st := parseErrReply(o)
		s.c.Ev.Case(reqs[i], st == "ERR")
		switch {
		case st == "OK" || st == "ERR":
			s.judge(recs, j)
		case st == "PARSEERR" || st == "LOADERR" || strings.HasPrefix(st, "INVALID"):
		case crashed(st):
			// a panic / crash is not an error RETURNED: it belongs to C01 / C02 / C14; counted, with a sample
			s.crashes[j.entry]++
			if _, ok := s.crashSample[j.entry]; !ok || len(j.input) < len(s.crashSample[j.entry]) {
				s.crashSample[j.entry] = j.input
			}
		default:
			s.keep("runtime", "error-crash:"+j.entry, fmt.Sprintf("%s of %q: unexpected reply %s", j.entry, clip(j.input, 200), clip(st, 200)), j.input, j.replay)
		}
	}
}

func wireOfErr(r errRecord) string {
	return impl.HexW([]byte(r.msg)) + " " + r.path + " " + r.locs + " " + r.ext
}

// modelTie compares the Lean model of the encoding and of Error() on every distinct error seen
// and on a synthetic grid.
func (s *c20State) modelTie() (int, int) {
	c := s.c
	type tcase struct {
		wire        string
		json, estr  string // Go side (hex); "" = ask errjsongo / errstrgo
		fromLibrary bool
	}
	var cases []tcase
	keys := make([]string, 0, len(s.distinct))
	for k := range s.distinct {
		keys = append(keys, k)
	}
	sort.Strings(keys)
	for _, k := range keys {
		r := s.distinct[k]
		if strings.HasPrefix(r.ext, "x") || strings.HasPrefix(r.jsonHex, "!") {
			continue
		}
		cases = append(cases, tcase{wireOfErr(r), r.jsonHex, impl.HexW([]byte(r.errStr)), true})
	}
	nLib := len(cases)
	msgs := []string{"m", "", "a \"quoted\" <b> & é\n", "\xff"}
	paths := []string{"-", "n61", "i0", "n61,i1,n62", "i-1,n", "n76617273,i9007199254740993"}
	locss := []string{"-", "1:1", "3:7,4:2", "0:0", "0:5", "5:0", "-1:-2", "2:-8"}
	exts := []string{"-", "f612e6772617068716c", "f"}
	for _, m := range msgs {
		for _, p := range paths {
			for _, l := range locss {
				for _, x := range exts {
					cases = append(cases, tcase{wire: impl.HexW([]byte(m)) + " " + p + " " + l + " " + x})
				}
			}
		}
	}
	var dreq []string
	for _, t := range cases {
		dreq = append(dreq, "errjson "+t.wire, "errstr "+t.wire)
	}
	dout := c.Driver.Map(dreq)
	for i, t := range cases {
		gj, gs := t.json, t.estr
		if !t.fromLibrary {
			a := strings.Fields(t.wire)
			gj, gs = impl.Call("errjsongo", a), impl.Call("errstrgo", a)
		}
		mj := strings.Fields(dout[2*i])
		c.Ev.Traces += 2
		rep := map[string]any{"op": "errjson", "request": "errjson " + t.wire}
		if len(mj) != 2 || mj[0] != gj {
			c.Report("correspondence", "error-json-model-differs", fmt.Sprintf("error %s: json.Marshal=%s, model=%s", t.wire, unhexS(gj), unhexS(dout[2*i])), rep)
		} else {
			js, _ := impl.UnhexW(gj)
			viol := jsonShapeViolations(js)
			// the Lean shape predicate does not ask for a non-empty message
			n := 0
			for _, v := range viol {
				if v != "message-empty" {
					n++
				}
			}
			if (n == 0) != (mj[1] == "1") {
				c.Report("correspondence", "shape-verdict-differs", fmt.Sprintf("error %s encodes as %s: Go shape judge says %v, Lean responseShape says %s", t.wire, js, viol, mj[1]), rep)
			}
		}
		if dout[2*i+1] != gs {
			c.Report("correspondence", "error-string-model-differs", fmt.Sprintf("error %s: Error()=%q, model=%q", t.wire, unhexS(gs), unhexS(dout[2*i+1])), map[string]any{"op": "errstr", "request": "errstr " + t.wire})
		}
	}
	return nLib, len(cases) - nLib
}

// path6: every path of length ≤ n over the seven elements.
func (s *c20State) paths(maxLen int) (int, int) {
	c := s.c
	elems := []string{"n61", "n62", "n37", "i0", "i1", "i9007199254740992", "i9007199254740993", "i-1"} // n37 = the NAME "7"
	var all []string
	var rec func(prefix []string, n int)
	rec = func(prefix []string, n int) {
		if len(prefix) > 0 {
			all = append(all, strings.Join(prefix, ","))
		} else {
			all = append(all, "-")
		}
		if n == 0 {
			return
		}
		for _, e := range elems {
			rec(append(append([]string(nil), prefix...), e), n-1)
		}
	}
	rec(nil, maxLen)
	extra := []string{"n30", "n2d33", "n303037", "n316533", "n2b31", "n31,i1,n31", "n6e756c6c", "n74727565", "n312e30", "i9223372036854775807", "i-9223372036854775808", "i-9007199254740993", "i9007199254740995", "i18014398509481985", "n", "nff", "n2e,n5b305d", "i4503599627370497"}
	all = append(all, extra...)
	var dreq []string
	for _, p := range all {
		dreq = append(dreq, "pathrt "+p, "pathenc "+p, "pathstr "+p)
	}
	dout := c.Driver.Map(dreq)
	bad := 0
	for i, p := range all {
		g := impl.Call("pathrtgo", []string{p})
		gstr := impl.Call("pathstrgo", []string{p})
		c.Ev.Case("path "+p, true)
		c.Ev.Traces += 3
		rep := map[string]any{"op": "pathrt", "path": p}
		gp := strings.SplitN(g, "|", 2)
		mrt, menc, mstr := dout[3*i], dout[3*i+1], dout[3*i+2]
		if gp[0] != mrt || len(gp) == 2 && gp[1] != menc {
			c.Report("correspondence", "path-model-differs", fmt.Sprintf("path %s: Go round trip %s, model %s / %s", p, g, mrt, menc), rep)
		}
		if gstr != mstr {
			c.Report("correspondence", "path-string-model-differs", fmt.Sprintf("path %s: String()=%q, model=%q", p, unhexS(gstr), unhexS(mstr)), rep)
		}
		if gp[0] != "ok "+p {
			bad++
			sig := "path-roundtrip:other"
			if strings.HasPrefix(gp[0], "ok ") {
				// which elements changed
				a, b := strings.Split(p, ","), strings.Split(strings.TrimPrefix(gp[0], "ok "), ",")
				onlyBig := len(a) == len(b)
				for k := range a {
					if k < len(b) && a[k] != b[k] {
						v, err := strconv.ParseInt(strings.TrimPrefix(a[k], "i"), 10, 64)
						if !strings.HasPrefix(a[k], "i") || err != nil || (v <= 1<<53 && v >= -(1<<53)) {
							onlyBig = false
						}
					}
				}
				if onlyBig {
					sig = "path-roundtrip:index-beyond-2^53"
				} else if p == "nff" {
					sig = "path-roundtrip:name-not-utf8"
				}
			}
			s.keep("spec", sig, fmt.Sprintf("path %s: json.Marshal then json.Unmarshal gives %s", p, gp[0]), p, rep)
		}
	}
	return len(all), bad
}

func checkC20(c *Ctx) {
	s := &c20State{c: c, findings: map[string]*c19Finding{}, byEntry: map[string]int{}, distinct: map[string]errRecord{}, unmatched: map[string]int{}, crashes: map[string]int{}, crashSample: map[string]string{}}

	// the regenerated table: fresh extraction vs the committed/generated Lean file
	sites, adds, err := extract.ExtractErrSites(RepoDir)
	if err != nil {
		c.ReportNoInput("theorem", "extract-failed:ErrSites", err.Error(), map[string]any{"theorem": "extractor errsites"})
	} else {
		tmp, _ := os.MkdirTemp("", "errsites")
		defer os.RemoveAll(tmp)
		if err := extract.RunExtractErrSites(RepoDir, tmp); err == nil {
			fresh, _ := os.ReadFile(filepath.Join(tmp, "GqlModel/Gen/ErrSites.lean"))
			have, _ := os.ReadFile(filepath.Join(LeanDir, "GqlModel/Gen/ErrSites.lean"))
			if !bytes.Equal(fresh, have) {
				c.ReportNoInput("theorem", "generated-table-stale:ErrSites", "lean/GqlModel/Gen/ErrSites.lean differs from a fresh extraction of "+RepoDir+" (run vextract errsites, rebuild GqlProofs.Props.C20)", map[string]any{"theorem": "C20_templates_nonempty"})
			}
		}
	}
	s.templates = buildTemplates(sites)
	c.Ev.Extra["errsites"] = map[string]any{"constructor_calls": len(sites), "addError_calls": len(adds), "distinct_templates": len(s.templates)}

	qs, ss := RepoGraphQLInputs()

	// 1. lexing
	{
		alpha := [][]byte{{'"'}, {'\\'}, {'u'}, {'0'}, {'1'}, {'.'}, {'e'}, {'-'}, {'a'}, {' '}, {'\n'}, {'\''}, {0}, {'#'}, {'{'}, {0xff}, {'+'}, {'x'}}
		var ins [][]byte
		EnumUpTo(alpha, c.Pick(3, 4), func(b []byte) { ins = append(ins, append([]byte(nil), b...)) })
		for i := 0; i < c.Pick(20000, 200000); i++ {
			ins = append(ins, GenBytes(c.R, 16))
		}
		for _, extra := range []string{"\"\\u12\"", "\"\\uD800\"", "\"\"\"x", "\"\x07\"", "\"\"\"\x07\"\"\"", "\ufeff\ufeff?", "\u00e9", "1.", "1e", "01", "-", "\"\\q\"", "\"\\u00zz\"", "\"a\nb\""} {
			ins = append(ins, []byte(extra))
		}
		var reqs []string
		var ctxs []judgeCtx
		for i, in := range ins {
			name := "lexfile.graphql"
			if i%7 == 3 {
				name = "-"
			}
			reqs = append(reqs, "elex "+name+" "+impl.HexW(in))
			ctxs = append(ctxs, judgeCtx{entry: "lex", names: []string{strings.TrimPrefix(name, "-")}, limit: -1, input: string(in)})
		}
		s.run(reqs, ctxs)
	}

	// 2. parsers, with and without limits
	{
		var reqs []string
		var ctxs []judgeCtx
		add := func(op, entry, in string, lim int, name string) {
			reqs = append(reqs, op+" "+name+" "+strconv.Itoa(lim)+" "+impl.HexW([]byte(in)))
			ctxs = append(ctxs, judgeCtx{entry: entry, names: []string{strings.TrimPrefix(name, "-")}, limit: lim, input: in})
		}
		nm := c.Pick(3, 20)
		for k, corpus := range [][]string{qs, ss} {
			op, entry := "epq", "parse-query"
			if k == 1 {
				op, entry = "eps", "parse-schema"
			}
			for i, in := range corpus {
				name := "doc.graphql"
				if i%5 == 4 {
					name = "-"
				}
				add(op, entry, in, -1, name)
				n := TokenCount([]byte(in))
				for _, lim := range []int{0, 1, 2, n - 1, n, n + 1, n + 2} {
					if lim >= 0 {
						add(op, entry, in, lim, name)
					}
				}
				for m := 0; m < nm; m++ {
					mut := MutateTokens(c.R, in)
					if c.R.Chance(1, 3) {
						mut = MutateTokens(c.R, mut)
					}
					add(op, entry, mut, -1, name)
					if c.R.Chance(1, 4) {
						add(op, entry, mut, 1+c.R.Intn(12), name)
					}
				}
			}
			for i := 0; i < c.Pick(2000, 30000); i++ {
				add(op, entry, string(GenBytes(c.R, 24)), -1, "doc.graphql")
			}
		}
		s.run(reqs, ctxs)
	}

	// 3. schema loading: one injected fault per clause, SDL mutators
	{
		var reqs []string
		var ctxs []judgeCtx
		add := func(srcs []string) {
			names := make([]string, len(srcs))
			hs := make([]string, len(srcs))
			for i, t := range srcs {
				names[i] = "u" + strconv.Itoa(i+1)
				hs[i] = impl.HexW([]byte(t))
			}
			names = append(names, "prelude.graphql")
			reqs = append(reqs, "eload "+strings.Join(hs, " "))
			ctxs = append(ctxs, judgeCtx{entry: "load", names: names, limit: -1, input: strings.Join(srcs, "\n# ---\n")})
		}
		for i := 0; i < c.Pick(3000, 40000); i++ {
			r := c.R.Fork(uint64(11_000_000 + i))
			add(gen.InjectSchemaFault(r, gen.GenSchema(r, i%10)).Sources)
		}
		var toks [][]sdlTok
		for _, t := range loadCorpus() {
			if tk := sdlTokens(t); len(tk) > 0 && len(tk) < 3000 {
				toks = append(toks, tk)
			}
		}
		for i := 0; i < c.Pick(6000, 80000) && len(toks) > 0; i++ {
			t := toks[c.R.Intn(len(toks))]
			for m := 0; m < 1+c.R.Intn(3); m++ {
				t = mutateSDL(c.R, t)
			}
			if c.R.Chance(1, 4) {
				add(splitSources(c.R, t, 2+c.R.Intn(2)))
			} else {
				add([]string{renderToks(c.R, t)})
			}
		}
		s.run(reqs, ctxs)
	}

	// 4. validation with every rule: injected faults, type-blind documents, mutated spec documents
	var schemas []*gen.Schema
	for i := 0; i < 24; i++ {
		schemas = append(schemas, gen.GenSchema(c.R.Fork(uint64(2000+i)), i%12))
	}
	{
		var reqs []string
		var ctxs []judgeCtx
		add := func(sdl, doc, name string) {
			reqs = append(reqs, "eval "+name+" "+impl.HexW([]byte(sdl))+" "+impl.HexW([]byte(doc)))
			ctxs = append(ctxs, judgeCtx{entry: "validate", names: []string{strings.TrimPrefix(name, "-")}, otherNames: []string{"s0", "prelude.graphql"}, limit: -1, validation: true, input: doc,
				replay: map[string]any{"schema": sdl}})
		}
		variants := gen.DocFaultVariants()
		for i := 0; i < c.Pick(6000, 80000); i++ {
			r := c.R.Fork(uint64(12_000_000 + i))
			sc := schemas[i%len(schemas)]
			name := "query.graphql"
			if i%5 == 4 {
				name = "-" // gqlparser.LoadQuery's own way: an unnamed source
			}
			switch i % 3 {
			case 0:
				if f, ok := gen.InjectDocFaultVariant(r, sc, 1+r.Intn(8), variants[(i/3)%len(variants)]); ok {
					add(sc.SDL(), f.Doc, name)
				} else {
					add(sc.SDL(), gen.InjectDocFault(r, sc, 1+r.Intn(8)).Doc, name)
				}
			case 1:
				add(sc.SDL(), gen.GenBlindDocument(r, sc, 1+r.Intn(8)), name)
			default:
				fs := gen.InjectDocFaults(r, sc, 1+r.Intn(8), 2+r.Intn(2))
				if len(fs) > 0 {
					add(sc.SDL(), fs[0].Doc, name)
				}
			}
		}
		seedPairs, _ := ValidateSeedPairs()
		pools := map[string]*NamePool{}
		for i, p := range seedPairs {
			add(p[0], p[1], "query.graphql")
			if _, ok := pools[p[0]]; !ok {
				if sch, err := impl.LoadSchema(p[0]); err == nil {
					pools[p[0]] = PoolOfSchema(sch)
				} else {
					pools[p[0]] = nil
				}
			}
			if pool := pools[p[0]]; pool != nil {
				for m := 0; m < c.Pick(2, 12); m++ {
					if out, ok := MutateDoc(c.R.Fork(uint64(13_000_000+i*16+m)), p[1], pool, 1+m%3); ok {
						add(p[0], out, "query.graphql")
					}
				}
			}
		}
		s.run(reqs, ctxs)
	}

	// 5. variable coercion: non-conforming values
	{
		var reqs []string
		var ctxs []judgeCtx
		for i := 0; i < c.Pick(6000, 80000); i++ {
			r := c.R.Fork(uint64(14_000_000 + i))
			sc := schemas[i%len(schemas)]
			d := gen.GenDocWith(r, sc, 2+r.Intn(10), gen.DocOptions{NoDeviations: true})
			vars, defect := gen.GenVars(r, sc, d.Text, "", i%8 == 0)
			reqs = append(reqs, "evars "+impl.HexW([]byte(sc.SDL()))+" "+impl.HexW([]byte(d.Text))+" 0 "+impl.SexpGoVal(vars))
			ctxs = append(ctxs, judgeCtx{entry: "vars", names: []string{""}, limit: -1, input: d.Text, replay: map[string]any{"schema": sc.SDL(), "defect": defect}})
		}
		// json.Number values at the top level of the variables map (a decoder with UseNumber), well-formed and not
		hsdl := "type Query { f(i: Int, fl: Float, s: String, d: ID, b: Boolean, l: [Int]): Int }"
		hdoc := "query($i: Int, $fl: Float, $s: String, $d: ID, $l: [Int]) { f(i: $i, fl: $fl, s: $s, d: $d, l: $l) }"
		for _, v := range []string{"(m I (x69 (jn x3132)))", "(m I (x666c (jn x312e35)))", "(m I (x64 (jn x37)))", "(m I (x73 (jn x3132)))", "(m I (x6c (jn x35)))",
			"(m I (x69 (jn x312e35)))", "(m I (x666c (jn x78)))", "(m I (x69 (jn x3132)) (x666c (jn x32)) (x64 (jn x39)))", "(m I (x69 (jn x39393939393939393939393939393939)))"} {
			reqs = append(reqs, "evars "+impl.HexW([]byte(hsdl))+" "+impl.HexW([]byte(hdoc))+" 0 "+v)
			ctxs = append(ctxs, judgeCtx{entry: "vars", names: []string{""}, limit: -1, input: hdoc + " " + v, replay: map[string]any{"schema": hsdl, "vars": v}})
		}
		s.run(reqs, ctxs)
	}

	// 4b. the rule registry API (AddRule / ReplaceRule / RemoveRule change a global): run in a pool of its own
	s.ruleRegistry(schemas)

	// 5b. the two guards of Validate and the path decoder's own error
	{
		reqs := []string{"evalnil schema", "evalnil doc"}
		ctxs := []judgeCtx{{entry: "validate-nil", names: []string{""}, limit: -1, input: "nil schema"}, {entry: "validate-nil", names: []string{""}, limit: -1, input: "nil document"}}
		for _, js := range []string{`[null]`, `[true]`, `[{}]`, `[[1]]`, `["a",1.5,{"x":1}]`} {
			reqs = append(reqs, "pathdecgo "+impl.HexW([]byte(js)))
			ctxs = append(ctxs, judgeCtx{entry: "path-decode", names: []string{""}, limit: -1, input: js})
		}
		s.run(reqs, ctxs)
	}

	// 6. paths
	nPaths, badPaths := s.paths(c.Pick(4, 6))

	// 7. the model of the encoding and of Error()
	nLib, nSyn := s.modelTie()

	// report
	sigs := make([]string, 0, len(s.findings))
	for k := range s.findings {
		sigs = append(sigs, k)
	}
	sort.Strings(sigs)
	found := map[string]int{}
	for _, k := range sigs {
		f := s.findings[k]
		found[k] = f.n
		c.Report(f.kind, k, f.what, f.replay)
	}
	var reached, never []string
	for _, t := range s.templates {
		if t.lit == 0 {
			continue
		}
		if t.hits > 0 {
			reached = append(reached, t.format)
		} else {
			never = append(never, fmt.Sprintf("%q (%s)", t.format, strings.Join(t.sites, " ")))
		}
	}
	sort.Strings(never)
	c.Ev.Extra["c20"] = map[string]any{
		"errors_judged": s.errsSeen, "errors_by_entry_point": s.byEntry, "distinct_errors_tied_to_model": nLib, "synthetic_errors_tied_to_model": nSyn,
		"paths_enumerated": nPaths, "paths_not_roundtripping": badPaths,
		"templates_reached": len(reached), "templates_total": len(reached) + len(never), "templates_never_reached": never,
		"messages_matching_no_template": s.unmatched, "findings_cases": found,
		"panics_or_crashes_while_producing_errors_owned_by_C01_C02_C14": s.crashes, "crash_samples": s.crashSample,
	}
	c.Ev.Rule = "a case is one call of an entry point (or one enumerated path); nontrivial = it returned at least one error"
	fmt.Printf("C20: errors judged=%d %v; distinct errors tied to the model=%d (+%d synthetic); paths=%d (not round-tripping %d)\n", s.errsSeen, s.byEntry, nLib, nSyn, nPaths, badPaths)
	fmt.Printf("C20: templates reached %d of %d; never reached:\n", len(reached), len(reached)+len(never))
	for _, n := range never {
		fmt.Printf("    %s\n", n)
	}
	if len(s.unmatched) > 0 {
		fmt.Printf("C20: messages matching no template: %v\n", s.unmatched)
	}
	for _, k := range sigs {
		fmt.Printf("    %-55s %d\n", k, found[k])
	}
	_ = rng.New
}

func init() {
	Checks["C20"] = checkC20
	Replayers["C20"] = func(c *Ctx, rep map[string]any) {
		s := &c20State{c: c, findings: map[string]*c19Finding{}, byEntry: map[string]int{}, distinct: map[string]errRecord{}, unmatched: map[string]int{}, crashes: map[string]int{}, crashSample: map[string]string{}}
		if p, ok := rep["path"].(string); ok {
			g := impl.Call("pathrtgo", []string{p})
			if !strings.HasPrefix(g, "ok "+p+"|") {
				c.Report("spec", rep["sig"].(string), fmt.Sprintf("path %s: json.Marshal then json.Unmarshal gives %s", p, g), rep)
			}
			return
		}
		req, _ := rep["request"].(string)
		f := strings.Fields(req)
		if len(f) == 0 {
			return
		}
		if f[0] == "errjson" || f[0] == "errstr" {
			g := impl.Call(f[0]+"go", f[1:])
			if m := strings.Fields(c.Driver.Map([]string{req})[0]); len(m) == 0 || m[0] != g {
				c.Report("correspondence", rep["sig"].(string), fmt.Sprintf("go=%s model=%v", g, m), rep)
			}
			return
		}
		sig, _ := rep["sig"].(string)
		entry := sig
		if i := strings.LastIndex(sig, ":"); i >= 0 {
			entry = sig[i+1:]
		}
		j := judgeCtx{entry: entry, names: []string{"replayed"}, limit: -1, validation: f[0] == "eval", input: fmt.Sprint(rep["what"])}
		switch f[0] {
		case "elex", "epq", "eps", "eval":
			j.names = []string{strings.TrimPrefix(f[1], "-")}
			if f[0] == "eval" {
				j.otherNames = []string{"s0", "prelude.graphql"}
			}
		case "eload":
			j.names = nil
			for i := range f[1:] {
				j.names = append(j.names, "u"+strconv.Itoa(i+1))
			}
			j.names = append(j.names, "prelude.graphql")
		case "evars":
			j.names = []string{""}
		}
		if sig == "limit-error-without-file" {
			j.entry = "parse"
		}
		s.run([]string{req}, []judgeCtx{j})
		for k, f := range s.findings {
			c.Report(f.kind, k, f.what, f.replay)
		}
	}
}

// ruleRegistry: after ReplaceRule / AddRule / RemoveRule every validation error still names the rule
// that produced it, and the change has exactly the documented effect on the error list.
func (s *c20State) ruleRegistry(schemas []*gen.Schema) {
	c := s.c
	self, _ := os.Executable()
	p := pool.New([]string{self, "-worker"}, 2, 30*time.Second)
	type sc struct {
		scenario, rule, sdl, doc string
	}
	var cases []sc
	var reqs, base []string
	variants := gen.DocFaultVariants()
	for i := 0; i < c.Pick(400, 4000); i++ {
		r := c.R.Fork(uint64(31_000_000 + i))
		sch := schemas[i%len(schemas)]
		v := variants[i%len(variants)]
		f, ok := gen.InjectDocFaultVariant(r, sch, 1+r.Intn(6), v)
		if !ok {
			continue
		}
		rule := strings.SplitN(v, "/", 2)[0]
		if _, ok := impl.RuleByName[rule]; !ok {
			rule = impl.DefaultRuleNames[i%len(impl.DefaultRuleNames)]
		}
		scen := []string{"replace", "replace-new", "add", "remove"}[i%4]
		cases = append(cases, sc{scen, rule, sch.SDL(), f.Doc})
		reqs = append(reqs, "erules "+scen+" "+rule+" q.graphql "+impl.HexW([]byte(sch.SDL()))+" "+impl.HexW([]byte(f.Doc)))
		base = append(base, "eval q.graphql "+impl.HexW([]byte(sch.SDL()))+" "+impl.HexW([]byte(f.Doc)))
	}
	out := p.Map(reqs)
	ref := c.Worker.Map(base)
	key := func(r errRecord, rule string) string { return rule + "\x00" + r.msg + "\x00" + r.locs }
	for i, cs := range cases {
		got, bad := parseErrReply(out[i])
		want, bad2 := parseErrReply(ref[i])
		rep := map[string]any{"op": "erules", "request": reqs[i], "schema": cs.sdl, "document": cs.doc}
		if (bad != "OK" && bad != "ERR") || (bad2 != "OK" && bad2 != "ERR") {
			s.keep("runtime", "rule-registry-crash", fmt.Sprintf("%s: %s / %s", clip(reqs[i], 80), clip(out[i], 200), clip(ref[i], 200)), cs.doc, rep)
			continue
		}
		c.Ev.Case("erules "+cs.scenario+" "+cs.rule+clip(out[i], 60), len(got) > 0)
		s.judge(got, judgeCtx{entry: "validate-after-" + cs.scenario, names: []string{"q.graphql"}, otherNames: []string{"s0", "prelude.graphql"}, limit: -1, validation: true, input: cs.doc, replay: rep})
		exp := map[string]int{}
		for _, r := range want {
			switch cs.scenario {
			case "remove":
				if r.rule != cs.rule {
					exp[key(r, r.rule)]++
				}
			case "add", "replace-new":
				exp[key(r, r.rule)]++
				if r.rule == cs.rule {
					exp[key(r, map[string]string{"add": "ZZAdded", "replace-new": "ZZNew"}[cs.scenario])]++
				}
			default:
				exp[key(r, r.rule)]++
			}
		}
		for _, r := range got {
			exp[key(r, r.rule)]--
		}
		for k, n := range exp {
			if n != 0 {
				f := strings.Split(k, "\x00")
				s.keep("spec", "rule-registry-effect:"+cs.scenario, fmt.Sprintf("after %s(%s) validating %q: error %q of rule %q appears %+d times compared with what the documented effect on the default rule set gives", cs.scenario, cs.rule, clip(cs.doc, 200), f[1], f[0], -n), cs.doc, rep)
				break
			}
		}
	}
	c.Ev.Count("rule-registry-scenarios", len(cases))
}
