package props

import (
	"os"
	"strconv"
)

func envInt(k string) int {
	v, _ := strconv.Atoi(os.Getenv(k))
	return v
}

func (c *Ctx) specLoad(cases []LoadCase) {}
func (c *Ctx) specLoadSummary()          {}
