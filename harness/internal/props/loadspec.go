package props

import (
	"fmt"
	"os"
	"sort"
	"strconv"
	"strings"
	"sync"
)

func envIntL(k string) int {
	v, _ := strconv.Atoi(os.Getenv(k))
	return v
}

type specFinding struct {
	count   int
	sources []string
	detail  string
}

type loadSpecState struct {
	wfChecked, closedChecked int
	mergedChecked            int
	genValid, genFault       int
	agreeAccept, agreeReject int
	findings                 map[string]*specFinding
}

var (
	lssMu  sync.Mutex
	lssMap = map[*Ctx]*loadSpecState{}
)

func (c *Ctx) lss() *loadSpecState {
	lssMu.Lock()
	defer lssMu.Unlock()
	if lssMap[c] == nil {
		lssMap[c] = &loadSpecState{findings: map[string]*specFinding{}}
	}
	return lssMap[c]
}

func totalLen(ss []string) int {
	n := 0
	for _, s := range ss {
		n += len(s)
	}
	return n
}

func (st *loadSpecState) add(sig string, sources []string, detail string) {
	f := st.findings[sig]
	if f == nil {
		f = &specFinding{sources: sources, detail: detail}
		st.findings[sig] = f
	}
	f.count++
	if totalLen(sources) < totalLen(f.sources) {
		f.sources, f.detail = sources, detail
	}
}

// failing clauses of a "name=0 name=1 …" verdict line
func failingClauses(v string) (fails []string, ok bool) {
	if !strings.Contains(v, "=") {
		return nil, false
	}
	for _, f := range strings.Fields(v) {
		if strings.HasSuffix(f, "=0") {
			fails = append(fails, strings.TrimSuffix(f, "=0"))
		}
	}
	return fails, true
}

// Stable signature of the loader defect that is recorded, not repaired:
//   - a builtin directive may be redeclared any number of times and the last declaration wins (R7b):
//     whenever S.uniqueDirectiveNames is among the failing clauses of an accepted document, the other
//     failing clauses are consequences of the overwritten definition and are not reported separately.
//
// (The second one, "the kind of a root operation type is not checked", is repaired: the loader's last
// check rejects non-object roots, `S.rootTypesAreObjects` is a clause of WellFormed, and a loaded
// schema on which `rootTypesAreObjects` fails is a live violation like any other loaded-schema clause.)
const (
	SigRedeclaredBuiltin = "go-accepts-spec-rejects:S.uniqueDirectiveNames"
)

func containsStr(xs []string, x string) bool {
	for _, y := range xs {
		if x == y {
			return true
		}
	}
	return false
}

// specLoad judges the REAL loader directly against the Lean spec: `wf` on the merged document vs
// Go's accept/reject, and `closed` (Closed, RelationsExact, HasBuiltins, IntrospectionFields,
// rootTypesAreObjects) on every schema Go loaded.  Cases with an expectation (generated schemas) are
// also judged against it: 'v' valid by construction — must load and be well formed; 'f' single
// injected fault — must be rejected by the loader and by the spec.
func (c *Ctx) specLoad(cases []LoadCase) {
	st := c.lss()
	var reqs []string
	var kind []byte
	var idx []int
	for i, cs := range cases {
		if cs.Doc == "" || !(strings.HasPrefix(cs.GoObs, "(") || strings.HasPrefix(cs.GoObs, "E,")) {
			if cs.Expect != 0 {
				st.add("generated-schema-does-not-parse:"+cs.Label, cs.Sources, describeObs(cs.GoObs))
			}
			continue
		}
		reqs = append(reqs, "wf "+cs.Doc)
		kind = append(kind, 'w')
		idx = append(idx, i)
		// the hypothesis `MergedDoc` of the completeness theorem C07_load_complete must hold of every
		// document the real parser merged (prelude = source 0 first, no built-in extension)
		reqs = append(reqs, "merged "+cs.Doc)
		kind = append(kind, 'm')
		idx = append(idx, i)
		if strings.HasPrefix(cs.GoObs, "(") {
			reqs = append(reqs, "closed "+cs.GoObs)
			kind = append(kind, 'c')
			idx = append(idx, i)
		}
	}
	res := c.Driver.Map(reqs)
	for k, r := range res {
		cs := cases[idx[k]]
		fails, ok := failingClauses(r)
		if !ok {
			st.add("spec-op-failed:"+r, cs.Sources, r)
			continue
		}
		if kind[k] == 'm' {
			st.mergedChecked++
			if len(fails) > 0 {
				st.add("merged-document-shape-violated:"+strings.Join(fails, "+"), cs.Sources, r)
			}
			continue
		}
		if kind[k] == 'c' {
			st.closedChecked++
			if len(fails) > 0 {
				st.add("loaded-schema-violates:"+strings.Join(fails, "+"), cs.Sources, r)
			}
			continue
		}
		st.wfChecked++
		goAccepts := strings.HasPrefix(cs.GoObs, "(")
		r7b := false
		switch {
		case goAccepts && len(fails) == 0:
			st.agreeAccept++
		case !goAccepts && len(fails) > 0:
			st.agreeReject++
		case goAccepts && containsStr(fails, "S.uniqueDirectiveNames"):
			r7b = true
			st.add(SigRedeclaredBuiltin, cs.Sources, r)
		case goAccepts:
			st.add("go-accepts-spec-rejects:"+strings.Join(fails, "+"), cs.Sources, r)
		default:
			st.add("go-rejects-spec-accepts:"+LoadTemplateOf(errMessage(cs.GoObs)), cs.Sources, describeObs(cs.GoObs))
		}
		switch cs.Expect {
		case 'v':
			st.genValid++
			if !goAccepts {
				st.add("generated-valid-schema-rejected:"+LoadTemplateOf(errMessage(cs.GoObs)), cs.Sources, describeObs(cs.GoObs))
			}
			if len(fails) > 0 {
				st.add("generated-valid-schema-not-wellformed:"+strings.Join(fails, "+"), cs.Sources, r)
			}
		case 'f':
			st.genFault++
			if goAccepts && !r7b {
				st.add("injected-fault-accepted:"+cs.Label, cs.Sources, r)
			}
			if len(fails) == 0 {
				st.add("injected-fault-wellformed:"+cs.Label, cs.Sources, r)
			}
		}
	}
}

func (c *Ctx) specLoadSummary() {
	st := c.lss()
	fmt.Printf("spec: wf compared on %d documents (agree accept %d, agree reject %d); closed/relations/builtins judged on %d loaded schemas\n",
		st.wfChecked, st.agreeAccept, st.agreeReject, st.closedChecked)
	fmt.Printf("spec: MergedDoc (hypothesis of C07_load_complete) evaluated on %d merged documents\n", st.mergedChecked)
	fmt.Printf("spec: expectations judged on %d valid-by-construction and %d single-fault schemas\n", st.genValid, st.genFault)
	sigs := make([]string, 0, len(st.findings))
	for s := range st.findings {
		sigs = append(sigs, s)
	}
	sort.Strings(sigs)
	for _, s := range sigs {
		f := st.findings[s]
		fmt.Printf("  DISAGREEMENT %-70s cases=%d smallest input=%q\n", s, f.count, f.sources)
		kind := "spec"
		if strings.HasPrefix(s, "go-rejects") || (strings.HasPrefix(s, "go-accepts") && !strings.Contains(s, "S.")) || strings.HasPrefix(s, "spec-op-failed") {
			kind = "correspondence" // spec/loader mismatch on E-clauses only, or a rejection the clause list does not explain
		}
		c.Report(kind, s, fmt.Sprintf("%s (%d cases), smallest: %q %s", s, f.count, f.sources, f.detail),
			map[string]any{"op": "wf/closed", "sources": f.sources, "detail": f.detail})
	}
}
