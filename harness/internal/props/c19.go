package props

// C19 — JSON round trip of executable documents.
//
// Correspondence (model = lean/GqlModel/Json, ops jsonenc / jsonrt / jsonstr / jsonsan):
//   json-string-model-differs      renderString / sanitize vs json.Marshal / Unmarshal of a string
//   json-model-encoding-differs    render (encodeQueryDoc d) vs json.Marshal(doc), byte for byte
//                                  (comment-free documents; comments are not part of the tree type)
//   json-model-roundtrip-differs   decodeQueryDoc (encodeQueryDoc d) vs Unmarshal(Marshal(doc))
// Direct check of the property on the two Go trees (parsed document vs its round trip), unvalidated
// and validated (validated documents carry the "Require validation" links):
//   json-roundtrip:selection-kind-lost            a fragment spread / inline fragment came back as another kind (R19)
//   json-roundtrip:<what>-lost                    what ∈ name alias arguments value directives type-condition selections
//                                                 operations fragments operation-type variable-definitions type
//   json-roundtrip:value-lost/invalid-utf8        the only loss is a string value whose bytes are not valid UTF-8
//   json-roundtrip:marshal-fails/<class>[(valid-document)|(invalid-document)]   json.Marshal returned an error (class: cycle | other);
//                                                 the suffix says what validation said about the (validated) document
//   json-roundtrip:unmarshal-fails                json.Unmarshal rejected what json.Marshal wrote
//   json-roundtrip:validated-blowup               encoding a validated document did not finish (time / memory)
//   json-roundtrip:crash                          panic / fatal error

import (
	"fmt"
	"os"
	"sort"
	"strconv"
	"strings"
	"unicode/utf8"

	"verifharness/internal/gen"
	"verifharness/internal/impl"
	"verifharness/internal/rng"
)

type c19Finding struct {
	kind, what, in string
	replay         map[string]any
	n              int
}

type c19State struct {
	c                                                   *Ctx
	findings                                            map[string]*c19Finding
	docs, parsed, encEqual, encSkippedComments, rtEqual int
	withSpread, withInline, lossFree                    int
	vdocs, vValid, vInvalid, vLossFree                  int
	vValidatorCrashes                                   int
	maxJSON, maxRatio                                   int
	losses                                              map[string]int
}

func (s *c19State) keep(kind, sig, what, in string, replay map[string]any) {
	f, ok := s.findings[sig]
	if ok {
		f.n++
		if len(f.in) <= len(in) {
			return
		}
		s.findings[sig] = &c19Finding{kind, what, in, replay, f.n}
		return
	}
	s.findings[sig] = &c19Finding{kind, what, in, replay, 1}
}

func crashed(o string) bool {
	return strings.HasPrefix(o, "CRASH") || strings.HasPrefix(o, "TIMEOUT") || strings.HasPrefix(o, "PANIC")
}

func marshalErrClass(msg string) string {
	if strings.Contains(msg, "cycle") {
		return "cycle"
	}
	return "other"
}

// unvalidated documents: model correspondence + direct check
func (s *c19State) batch(texts []string) {
	c := s.c
	wreq := make([]string, len(texts))
	for i, t := range texts {
		wreq[i] = "jsonrt " + impl.HexW([]byte(t))
	}
	wout := c.Worker.Map(wreq)
	var dreq []string
	var idx []int
	parts := make([][]string, len(texts))
	for i, o := range wout {
		s.docs++
		rep := map[string]any{"op": "jsonrt", "input_hex": impl.HexW([]byte(texts[i])), "input": texts[i]}
		if o == "PARSEERR" {
			continue
		}
		if crashed(o) {
			s.keep("runtime", "json-roundtrip:crash", fmt.Sprintf("document %q: %s", texts[i], clip(o, 300)), texts[i], rep)
			continue
		}
		p := strings.Split(o, "|")
		if len(p) != 4 {
			s.keep("runtime", "json-roundtrip:crash", fmt.Sprintf("document %q: malformed reply %s", texts[i], clip(o, 200)), texts[i], rep)
			continue
		}
		s.parsed++
		parts[i] = p
		dreq = append(dreq, "jsonenc "+p[0], "jsonrt "+p[0])
		idx = append(idx, i)
	}
	dout := c.Driver.Map(dreq)
	for j, i := range idx {
		t, p := texts[i], parts[i]
		rep := map[string]any{"op": "jsonrt", "input_hex": impl.HexW([]byte(t)), "input": t}
		c.Ev.Case("u"+t, true)
		menc, mrt := dout[2*j], dout[2*j+1]
		if strings.Contains(p[0], "(S ") {
			s.withSpread++
		}
		if strings.Contains(p[0], "(I ") {
			s.withInline++
		}
		// (i) encoding, byte for byte (the tree type has no comments)
		if strings.Contains(t, "#") && menc != p[1] {
			s.encSkippedComments++
		} else if menc != p[1] {
			s.keep("correspondence", "json-model-encoding-differs", fmt.Sprintf("document %q:\n go   =%s\n model=%s", t, clip(unhexS(p[1]), 600), clip(unhexS(menc), 600)), t,
				withKeys(rep, "go_observation", unhexS(p[1]), "model_observation", unhexS(menc)))
		} else {
			s.encEqual++
			c.Ev.Traces++
		}
		// (ii) round trip
		if mrt != p[2] {
			s.keep("correspondence", "json-model-roundtrip-differs", fmt.Sprintf("document %q:\n go   =%s\n model=%s", t, clip(p[2], 600), clip(mrt, 600)), t,
				withKeys(rep, "go_observation", p[2], "model_observation", mrt))
		} else {
			s.rtEqual++
			c.Ev.Traces++
		}
		// (iii) the property itself
		if strings.HasPrefix(p[2], "E,") {
			msg := unhexS(p[2][2:])
			sig := "json-roundtrip:unmarshal-fails"
			if p[1] == "-" {
				sig = "json-roundtrip:marshal-fails/" + marshalErrClass(msg)
			}
			s.keep("spec", sig, fmt.Sprintf("document %q: %s", t, msg), t, rep)
			continue
		}
		s.judgeLoss(p[3], t, rep, "")
	}
}

func withKeys(m map[string]any, kv ...any) map[string]any {
	out := map[string]any{}
	for k, v := range m {
		out[k] = v
	}
	for i := 0; i+1 < len(kv); i += 2 {
		out[kv[i].(string)] = kv[i+1]
	}
	return out
}

func (s *c19State) judgeLoss(loss, text string, rep map[string]any, ctx string) {
	if loss == "-" {
		if ctx == "" {
			s.lossFree++
		} else {
			s.vLossFree++
		}
		return
	}
	for _, l := range strings.Split(loss, ",") {
		s.losses[ctx+l]++
		sig := "json-roundtrip:" + l + "-lost"
		if l == "value" && !utf8.ValidString(text) {
			sig += "/invalid-utf8"
		}
		what := fmt.Sprintf("%sdocument %q: after json.Marshal + json.Unmarshal the %s differ from the parsed document", ctx, text, l)
		if l == "selection-kind" {
			what = fmt.Sprintf("%sdocument %q: after json.Marshal + json.Unmarshal a fragment spread or inline fragment is no longer one (UnmarshalSelectionSet tries the Field decoder first and it accepts any object)", ctx, text)
		}
		s.keep("spec", sig, what, text, rep)
	}
}

// validated documents: direct check only
func (s *c19State) batchValidated(pairs [][2]string) {
	c := s.c
	wreq := make([]string, len(pairs))
	for i, p := range pairs {
		wreq[i] = "jsonrtv " + impl.HexW([]byte(p[0])) + " " + impl.HexW([]byte(p[1]))
	}
	for i, o := range c.Worker.Map(wreq) {
		t := pairs[i][1]
		rep := map[string]any{"op": "jsonrtv", "schema": pairs[i][0], "input": t, "schema_hex": impl.HexW([]byte(pairs[i][0])), "input_hex": impl.HexW([]byte(t))}
		if o == "PARSEERR" || o == "LOADERR" || o == "VALPANIC" {
			continue
		}
		s.vdocs++
		c.Ev.Case("v"+pairs[i][0]+"\x00"+t, true)
		if crashed(o) {
			// is it the validator that crashes / hangs (C02), before any JSON is involved?
			if v := c.Worker.Map([]string{"jsonrtvv " + impl.HexW([]byte(pairs[i][0])) + " " + impl.HexW([]byte(t))})[0]; crashed(v) {
				s.vValidatorCrashes++
				s.vdocs--
				continue
			}
			sig := "json-roundtrip:crash"
			if strings.HasPrefix(o, "TIMEOUT") || strings.Contains(o, "out of memory") || strings.Contains(o, "killed") {
				sig = "json-roundtrip:validated-blowup"
			}
			s.keep("runtime", sig, fmt.Sprintf("validated document %q: %s", t, clip(o, 300)), t, rep)
			continue
		}
		p := strings.Split(o, "|")
		if len(p) != 4 {
			s.keep("runtime", "json-roundtrip:crash", fmt.Sprintf("validated document %q: malformed reply %s", t, clip(o, 200)), t, rep)
			continue
		}
		if p[0] == "valid" {
			s.vValid++
		} else {
			s.vInvalid++
		}
		if n, _ := strconv.Atoi(p[1]); n > 0 {
			if n > s.maxJSON {
				s.maxJSON = n
			}
			if r := n / (len(t) + 1); r > s.maxRatio {
				s.maxRatio = r
			}
		}
		if strings.HasPrefix(p[2], "E,") {
			msg := unhexS(p[2][2:])
			sig := "json-roundtrip:unmarshal-fails"
			if p[1] == "0" {
				sig = "json-roundtrip:marshal-fails/" + marshalErrClass(msg) + "(" + p[0] + "-document)"
			}
			s.keep("spec", sig, fmt.Sprintf("validated (%s) document %q: %s", p[0], t, msg), t, rep)
			continue
		}
		s.judgeLoss(p[3], t, rep, "validated ")
	}
}

var c19Minimal = []string{
	`{ a ...F ... on T { b } }`, // R19
	`{ a }`,
	`{ ...F }`,
	`{ ... { a } }`,
	`{ ... on T { a } }`,
	`{ ... @d { a } }`,
	`{ ...F @d(x: 1) }`,
	`{ a { b { ...F ... on T { c ...G } } } }`,
	`query Q($v: [Int!]! = [1, 2] @d) @e { x: a(b: {c: [$v, "s", 1.5, true, null, E]}) @f }`,
	`fragment F($x: Int = 3) on T @d { a ...G }`,
	`mutation { a } subscription S { b } query { c }`,
	`{ a(s: "<>&\u2028\u2029\u0000\u0008\u000c\n\r\t\"\\/\u007f é 😀") }`,
	"{ a(s: \"\xff\xfe\") }",
	"{ a(s: \"\"\"block\n  string \xc3\"\"\") }",
	"# comment\n{ a # c\n }",
}

// a fragment DAG whose validated encoding doubles at every level: F0 { ...F1 ...F1 }, F1 { ...F2 ...F2 }, …
func c19Doubling(n int) string {
	var sb strings.Builder
	sb.WriteString("{ ...F0 }")
	for i := 0; i < n; i++ {
		fmt.Fprintf(&sb, " fragment F%d on Query { ...F%d ...F%d }", i, i+1, i+1)
	}
	fmt.Fprintf(&sb, " fragment F%d on Query { __typename }", n)
	return sb.String()
}

func checkC19(c *Ctx) {
	s := &c19State{c: c, findings: map[string]*c19Finding{}, losses: map[string]int{}}

	// 0. strings: escaping and the UTF-8 coercion
	{
		var ins [][]byte
		for b := 0; b < 256; b++ {
			ins = append(ins, []byte{byte(b)}, []byte{'a', byte(b), 'b'})
		}
		for _, r := range []rune{0x7f, 0x80, 0x7ff, 0x800, 0x2027, 0x2028, 0x2029, 0x202a, 0xd7ff, 0xe000, 0xfffd, 0xfffe, 0xffff, 0x10000, 0x1f600, 0x10ffff} {
			ins = append(ins, []byte("x"+string(r)+"y"))
		}
		ins = append(ins, []byte("\xed\xa0\x80"), []byte("\xe2\x80"), []byte("\xf4\x90\x80\x80"), []byte("\xc0\x80"), []byte{})
		n := c.Pick(20000, 200000)
		for i := 0; i < n; i++ {
			ins = append(ins, GenBytes(c.R, 24))
		}
		var reqs []string
		for _, in := range ins {
			h := impl.HexW(in)
			reqs = append(reqs, "jsonstr "+h, "jsonsan "+h)
		}
		out := c.Driver.Map(reqs)
		for i, in := range ins {
			h := impl.HexW(in)
			g1, g2 := impl.Call("jsonstrgo", []string{h}), impl.Call("jsonsango", []string{h})
			c.Ev.Traces += 2
			if out[2*i] != g1 {
				c.Report("correspondence", "json-string-model-differs", fmt.Sprintf("json.Marshal(%q)=%s, renderString=%s", in, unhexS(g1), unhexS(out[2*i])), map[string]any{"op": "jsonstr", "input_hex": h})
			}
			if out[2*i+1] != g2 {
				c.Report("correspondence", "json-string-model-differs", fmt.Sprintf("Unmarshal(Marshal(%q))=%q, sanitize=%q", in, unhexS(g2), unhexS(out[2*i+1])), map[string]any{"op": "jsonsan", "input_hex": h})
			}
		}
		c.Ev.Count("string_cases", len(ins))
	}

	// 1. unvalidated documents
	qs, _ := RepoGraphQLInputs()
	s.batch(qs)
	s.batch(c19Minimal)
	corpus := len(qs) + len(c19Minimal)
	total := c.Pick(6000, 120000)
	if v := os.Getenv("VERIF_C19_DOCS"); v != "" {
		total, _ = strconv.Atoi(v)
	}
	const batch = 3000
	var schemas []*gen.Schema
	for i := 0; i < 24; i++ {
		schemas = append(schemas, gen.GenSchema(c.R.Fork(uint64(1000+i)), i%12))
	}
	for done := 0; done < total; done += batch {
		var texts []string
		for i := 0; i < batch; i++ {
			r := c.R.Fork(uint64(7_000_000 + done + i))
			sc := schemas[(done+i)%len(schemas)]
			switch i % 4 {
			case 0, 1:
				texts = append(texts, GenQueryText(r, i%10 == 0, i%6 == 1, false))
			case 2:
				texts = append(texts, gen.GenDoc(r, sc, 1+r.Intn(12)).Text)
			default:
				texts = append(texts, gen.GenBlindDocument(r, sc, 1+r.Intn(10)))
			}
		}
		s.batch(texts)
	}

	// 2. validated documents (valid by construction, single-fault, type-blind)
	vtotal := c.Pick(3000, 60000)
	for done := 0; done < vtotal; done += batch {
		var pairs [][2]string
		for i := 0; i < batch && done+i < vtotal; i++ {
			r := c.R.Fork(uint64(9_000_000 + done + i))
			sc := schemas[(done+i)%len(schemas)]
			sdl := sc.SDL()
			switch i % 4 {
			case 0, 1:
				pairs = append(pairs, [2]string{sdl, gen.GenDoc(r, sc, 1+r.Intn(10)).Text})
			case 2:
				pairs = append(pairs, [2]string{sdl, gen.InjectDocFault(r, sc, 1+r.Intn(8)).Doc})
			default:
				pairs = append(pairs, [2]string{sdl, gen.GenBlindDocument(r, sc, 1+r.Intn(8))})
			}
		}
		s.batchValidated(pairs)
	}
	// the repository's validation corpus
	if seedPairs, _ := ValidateSeedPairs(); len(seedPairs) > 0 {
		s.batchValidated(seedPairs)
		corpus += len(seedPairs)
	}
	// adversarial: fragment cycles (linked by the walker although rejected) and doubling DAGs
	const tinySchema = "type Query { a: Query b: Int }"
	adv := [][2]string{
		{tinySchema, "{ ...F } fragment F on Query { a { ...F } }"},
		{tinySchema, "{ ...F } fragment F on Query { ...G } fragment G on Query { ...F }"},
		{tinySchema, "{ a { ...F } } fragment F on Query { b }"},
		{tinySchema, "query ($v: Int = 1) { a { b @include(if: true) } x: b @skip(if: false) ... on Query { b } }"},
	}
	maxDbl := c.Pick(15, 18)
	for n := 1; n <= maxDbl; n++ {
		adv = append(adv, [2]string{tinySchema, c19Doubling(n)})
	}
	s.batchValidated(adv)

	sigs, found := s.flush()
	c.Ev.Extra["c19"] = map[string]any{
		"documents_tried": s.docs, "documents_parsed": s.parsed, "corpus_documents": corpus,
		"with_fragment_spread": s.withSpread, "with_inline_fragment": s.withInline,
		"model_encoding_equal_bytes": s.encEqual, "encoding_not_compared_comments": s.encSkippedComments,
		"model_roundtrip_equal": s.rtEqual, "unvalidated_loss_free": s.lossFree,
		"validated_documents": s.vdocs, "validated_valid": s.vValid, "validated_invalid": s.vInvalid, "validated_loss_free": s.vLossFree,
		"validator_crashes_before_encoding_owned_by_C02": s.vValidatorCrashes,
		"validated_max_json_bytes":                       s.maxJSON, "validated_max_json_over_text_ratio": s.maxRatio,
		"loss_classes": s.losses, "findings_cases": found,
	}
	c.Ev.Rule = "a case is one document (unvalidated: compared with the model and judged; validated: judged); distinct = distinct (schema, document) texts"
	fmt.Printf("C19: documents tried=%d parsed=%d (spread %d, inline %d) model-encoding-equal=%d (comments skipped %d) model-roundtrip-equal=%d loss-free=%d\n",
		s.docs, s.parsed, s.withSpread, s.withInline, s.encEqual, s.encSkippedComments, s.rtEqual, s.lossFree)
	fmt.Printf("C19: validated documents=%d (valid %d, invalid %d) loss-free=%d max-json=%d bytes max json/text ratio=%d\n", s.vdocs, s.vValid, s.vInvalid, s.vLossFree, s.maxJSON, s.maxRatio)
	for _, k := range sigs {
		fmt.Printf("    %-55s %d\n", k, found[k])
	}
	_ = rng.New
}

// flush reports the smallest input per signature, in a stable order
func (s *c19State) flush() ([]string, map[string]int) {
	sigs := make([]string, 0, len(s.findings))
	for k := range s.findings {
		sigs = append(sigs, k)
	}
	sort.Strings(sigs)
	found := map[string]int{}
	for _, k := range sigs {
		f := s.findings[k]
		found[k] = f.n
		s.c.Report(f.kind, k, f.what, f.replay)
	}
	return sigs, found
}

func init() {
	Checks["C19"] = checkC19
	Replayers["C19"] = func(c *Ctx, rep map[string]any) {
		s := &c19State{c: c, findings: map[string]*c19Finding{}, losses: map[string]int{}}
		in, _ := rep["input_hex"].(string)
		b, _ := impl.UnhexW(in)
		if sh, ok := rep["schema_hex"].(string); ok {
			sb, _ := impl.UnhexW(sh)
			s.batchValidated([][2]string{{string(sb), string(b)}})
		} else if op, _ := rep["op"].(string); op == "jsonstr" || op == "jsonsan" {
			g := impl.Call(op+"go", []string{in})
			if m := c.Driver.Map([]string{op + " " + in})[0]; m != g {
				c.Report("correspondence", "json-string-model-differs", fmt.Sprintf("go=%s model=%s", g, m), rep)
			}
		} else {
			s.batch([]string{string(b)})
		}
		s.flush()
	}
}
