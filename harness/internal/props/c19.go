package props

// C19 — JSON round trip of PARSED executable documents.
//
// Correspondence (model = lean/GqlModel/Json, ops jsonenc / jsonrt / jsonwf / jsondec / jsonstr / jsonsan):
//   json-string-model-differs      renderString / sanitize vs json.Marshal / Unmarshal of a string
//   json-model-encoding-differs    render (encodeQueryDoc d) vs json.Marshal(doc), byte for byte
//                                  (comment-free documents; comments are not part of the tree type)
//   json-model-roundtrip-differs   decodeQueryDoc (encodeQueryDoc d) vs Unmarshal(Marshal(doc))
//   json-model-decoder-differs     decodeQueryDoc j vs json.Unmarshal on hand-written and mutated JSON
//                                  (selection objects with any combination of Alias / TypeCondition / Name keys,
//                                  null / number / string / array items, unknown keys, wrong-typed values)
//   json-wf-assumption-fails       for a source text that is valid UTF-8, sourceCleanB (every token value of the lexer
//                                  model is well-formed UTF-8: hypothesis of C19_parsed_document_wellformed) or utf8CleanB
//                                  of the parsed tree (hypothesis of C19_roundtrip) is false — the assumption is tested
//                                  here, not proved
// Direct check of the property on the two Go trees (parsed document vs its round trip), independent of the model:
//   json-roundtrip:selection-kind-lost            a field / fragment spread / inline fragment came back as another
//                                                 kind (kind-by-kind comparison in impl.DocLoss)
//   json-roundtrip:<what>-lost                    what ∈ name alias arguments value directives type-condition selections
//                                                 operations fragments operation-type variable-definitions type
//   json-roundtrip:value-lost/invalid-utf8        the only loss is a string value whose bytes are not valid UTF-8
//   json-roundtrip:tree-differs                   the canonical trees (positions zeroed) differ although no clause lost
//   json-roundtrip:marshal-fails/<class>          json.Marshal returned an error (class: cycle | other)
//   json-roundtrip:unmarshal-fails                json.Unmarshal rejected what json.Marshal wrote
//   json-roundtrip:crash                          panic / fatal error
//   json-roundtrip:kind-detector-dead             self-test: with the top-level selections decoded the legacy way
//                                                 (all through the Field decoder) the comparison must say selection-kind
// VALIDATED documents are outside the domain of C19 (the property speaks of parsed documents); they are
// still explored, but only counted (evidence "validated_informational"): marshal errors on linked fragment
// cycles, encodings that blow up, clause losses.  Nothing about them is reported.

import (
	"fmt"
	"os"
	"sort"
	"strconv"
	"strings"

	"verifharness/internal/gen"
	"verifharness/internal/impl"
	"verifharness/internal/rng"
)

type c19Finding struct {
	kind, what, in string
	replay         map[string]any
	n              int
}

type c19State struct {
	c                                                   *Ctx
	findings                                            map[string]*c19Finding
	docs, parsed, encEqual, encSkippedComments, rtEqual int
	withSpread, withInline, lossFree                    int
	wfTrue, wfFalse, srcTrue, srcFalse                  int
	losses                                              map[string]int
	// generator coverage
	cov        map[string]int // documents having the feature
	bi4, tri4  map[string]bool
	depthHist  map[int]int
	jsonSample []string // JSON texts of parsed documents (input of the mutator)
	// decoder correspondence
	decInputs, decEqual, decBothError, decUnmodelled, decOutside int
	decKinds                                                     map[string]int
	// validated documents (informational)
	vdocs, vValid, vInvalid, vLossFree int
	vValidatorCrashes                  int
	maxJSON, maxRatio                  int
	vInfo                              map[string]int
	vExample                           map[string]string
}

func newC19State(c *Ctx) *c19State {
	return &c19State{c: c, findings: map[string]*c19Finding{}, losses: map[string]int{}, cov: map[string]int{},
		bi4: map[string]bool{}, tri4: map[string]bool{}, depthHist: map[int]int{}, decKinds: map[string]int{},
		vInfo: map[string]int{}, vExample: map[string]string{}}
}

func (s *c19State) keep(kind, sig, what, in string, replay map[string]any) {
	f, ok := s.findings[sig]
	if ok {
		f.n++
		if len(f.in) <= len(in) {
			return
		}
		s.findings[sig] = &c19Finding{kind, what, in, replay, f.n}
		return
	}
	s.findings[sig] = &c19Finding{kind, what, in, replay, 1}
}

func crashed(o string) bool {
	return strings.HasPrefix(o, "CRASH") || strings.HasPrefix(o, "TIMEOUT") || strings.HasPrefix(o, "PANIC")
}

func marshalErrClass(msg string) string {
	if strings.Contains(msg, "cycle") {
		return "cycle"
	}
	return "other"
}

// shape statistics of one document (impl.DocShape) into the coverage counters
func (s *c19State) cover(shape string) {
	for _, kv := range strings.Fields(shape) {
		k, v, _ := strings.Cut(kv, "=")
		switch k {
		case "bi4", "tri4":
			if v == "" {
				continue
			}
			for _, w := range strings.Split(v, "+") {
				if k == "bi4" {
					s.bi4[w] = true
				} else {
					s.tri4[w] = true
				}
			}
		default:
			n, _ := strconv.Atoi(v)
			switch k {
			case "md":
				s.depthHist[n]++
			case "fd", "sd", "id":
				if n >= 4 {
					s.cov[k+">=4"]++
				}
				if n >= 6 {
					s.cov[k+">=6"]++
				}
			default:
				if n > 0 {
					s.cov[k]++
				}
			}
		}
	}
}

// parsed (unvalidated) documents: model correspondence + direct check
func (s *c19State) batch(texts []string) {
	c := s.c
	wreq := make([]string, len(texts))
	for i, t := range texts {
		wreq[i] = "jsonrt " + impl.HexW([]byte(t))
	}
	wout := c.Worker.Map(wreq)
	var dreq []string
	var idx []int
	parts := make([][]string, len(texts))
	for i, o := range wout {
		s.docs++
		rep := map[string]any{"op": "jsonrt", "input_hex": impl.HexW([]byte(texts[i])), "input": texts[i]}
		if o == "PARSEERR" {
			continue
		}
		if crashed(o) {
			s.keep("runtime", "json-roundtrip:crash", fmt.Sprintf("document %q: %s", texts[i], clip(o, 300)), texts[i], rep)
			continue
		}
		p := strings.Split(o, "|")
		if len(p) != 6 {
			s.keep("runtime", "json-roundtrip:crash", fmt.Sprintf("document %q: malformed reply %s", texts[i], clip(o, 200)), texts[i], rep)
			continue
		}
		s.parsed++
		parts[i] = p
		dreq = append(dreq, "jsonenc "+p[0], "jsonrt "+p[0], "jsonwf "+p[0], "jsonsrcwf "+impl.HexW([]byte(texts[i])))
		idx = append(idx, i)
	}
	dout := c.Driver.Map(dreq)
	for j, i := range idx {
		t, p := texts[i], parts[i]
		rep := map[string]any{"op": "jsonrt", "input_hex": impl.HexW([]byte(t)), "input": t}
		c.Ev.Case("u"+t, true)
		menc, mrt, mwf, msrc := dout[4*j], dout[4*j+1], dout[4*j+2], dout[4*j+3]
		if strings.Contains(p[0], "(S ") {
			s.withSpread++
		}
		if strings.Contains(p[0], "(I ") {
			s.withInline++
		}
		s.cover(p[4])
		if len(s.jsonSample) < 4000 && len(p[1]) < 16000 && p[1] != "-" {
			s.jsonSample = append(s.jsonSample, unhexS(p[1]))
		}
		// (i) encoding, byte for byte (the tree type has no comments)
		if strings.Contains(t, "#") && menc != p[1] {
			s.encSkippedComments++
		} else if menc != p[1] {
			s.keep("correspondence", "json-model-encoding-differs", fmt.Sprintf("document %q:\n go   =%s\n model=%s", t, clip(unhexS(p[1]), 600), clip(unhexS(menc), 600)), t,
				withKeys(rep, "go_observation", unhexS(p[1]), "model_observation", unhexS(menc)))
		} else {
			s.encEqual++
			c.Ev.Traces++
		}
		// (ii) round trip
		if mrt != p[2] {
			s.keep("correspondence", "json-model-roundtrip-differs", fmt.Sprintf("document %q:\n go   =%s\n model=%s", t, clip(p[2], 600), clip(mrt, 600)), t,
				withKeys(rep, "go_observation", p[2], "model_observation", mrt))
		} else {
			s.rtEqual++
			c.Ev.Traces++
		}
		// (iii) the hypothesis of the round-trip theorem holds of what the parser builds from UTF-8 text
		switch {
		case mwf == "1":
			s.wfTrue++
		case mwf == "0":
			s.wfFalse++
			if validUTF8(t) {
				s.keep("correspondence", "json-wf-assumption-fails", fmt.Sprintf("document %q is valid UTF-8 but the parsed tree holds a string that is not (utf8CleanB = false)", t), t, rep)
			}
		default:
			s.keep("correspondence", "json-wf-assumption-fails", fmt.Sprintf("document %q: driver op jsonwf replied %s", t, clip(mwf, 100)), t, rep)
		}
		// … and of the lexer model's tokens (hypothesis of C19_parsed_document_wellformed); the theorem says
		// sourceCleanB ⇒ utf8CleanB
		switch {
		case msrc == "1":
			s.srcTrue++
			if mwf == "0" {
				s.keep("correspondence", "json-wf-assumption-fails", fmt.Sprintf("document %q: sourceCleanB holds but utf8CleanB of the parsed tree does not (contradicts C19_parsed_document_wellformed: the driver's tree is not the parser model's?)", t), t, rep)
			}
		case msrc == "0":
			s.srcFalse++
			if validUTF8(t) {
				s.keep("correspondence", "json-wf-assumption-fails", fmt.Sprintf("document %q is valid UTF-8 but the lexer model produces a token whose value is not (sourceCleanB = false)", t), t, rep)
			}
		default:
			s.keep("correspondence", "json-wf-assumption-fails", fmt.Sprintf("document %q: driver op jsonsrcwf replied %s", t, clip(msrc, 100)), t, rep)
		}
		// (iv) the property itself, on the two Go trees
		if strings.HasPrefix(p[2], "E,") {
			msg := unhexS(p[2][2:])
			sig := "json-roundtrip:unmarshal-fails"
			if p[1] == "-" {
				sig = "json-roundtrip:marshal-fails/" + marshalErrClass(msg)
			}
			s.keep("spec", sig, fmt.Sprintf("document %q: %s", t, msg), t, rep)
			continue
		}
		s.judgeLoss(p[3], t, mwf == "0", rep)
		if p[3] == "-" && p[5] != "same" {
			s.keep("spec", "json-roundtrip:tree-differs", fmt.Sprintf("document %q: no clause of the property is lost, yet the canonical tree of the decoded document differs from the parsed one:\n decoded=%s", t, clip(p[2], 600)), t, rep)
		}
	}
}

func validUTF8(s string) bool { return strings.ToValidUTF8(s, "\uFFFD") == s }

func withKeys(m map[string]any, kv ...any) map[string]any {
	out := map[string]any{}
	for k, v := range m {
		out[k] = v
	}
	for i := 0; i+1 < len(kv); i += 2 {
		out[kv[i].(string)] = kv[i+1]
	}
	return out
}

// illFormed: the parsed tree holds a string that is not well-formed UTF-8 (utf8CleanB = false)
func (s *c19State) judgeLoss(loss, text string, illFormed bool, rep map[string]any) {
	if loss == "-" {
		s.lossFree++
		return
	}
	for _, l := range strings.Split(loss, ",") {
		s.losses[l]++
		sig := "json-roundtrip:" + l + "-lost"
		if l == "value" && illFormed && !validUTF8(text) {
			sig += "/invalid-utf8"
		}
		what := fmt.Sprintf("document %q: after json.Marshal + json.Unmarshal the %s differ from the parsed document", text, l)
		if l == "selection-kind" {
			what = fmt.Sprintf("document %q: after json.Marshal + json.Unmarshal a selection has changed its kind (field / fragment spread / inline fragment)", text)
		}
		s.keep("spec", sig, what, text, rep)
	}
}

// self-test of the kind comparison: decode the top-level selections the legacy way
func (s *c19State) detectorAlive() {
	wit := []string{`{ a ...F ... on T { b } }`, `{ ...F }`, `{ ... { a } }`, `fragment G on T { ... on T @d { a } }`}
	req := make([]string, len(wit))
	for i, t := range wit {
		req[i] = "jsonrtlegacytop " + impl.HexW([]byte(t))
	}
	alive := 0
	for i, o := range s.c.Worker.Map(req) {
		has := false
		for _, l := range strings.Split(o, ",") {
			has = has || l == "selection-kind"
		}
		if has {
			alive++
		} else {
			s.c.Report("runtime", "json-roundtrip:kind-detector-dead", fmt.Sprintf("document %q with its top-level selections decoded through the Field decoder: the comparison says %q, not selection-kind", wit[i], o),
				map[string]any{"op": "jsonrtlegacytop", "input": wit[i], "input_hex": impl.HexW([]byte(wit[i]))})
		}
	}
	s.c.Ev.Count("kind_detector_selftests_passed", alive)
}

/* ---------------- decoder correspondence on hand-written and mutated JSON ---------------- */

type c19JSON struct{ origin, text string }

func selDoc(items string) string {
	return `{"Operations":[{"Operation":"query","Name":"","SelectionSet":[` + items + `]}],"Fragments":null}`
}

var c19HandJSON = []string{
	// the document level
	`null`, `{}`, `[]`, `5`, `"s"`, `true`,
	`{"Operations":null,"Fragments":null,"Comment":null}`,
	`{"Operations":[],"Fragments":[]}`,
	`{"Operations":{},"Fragments":[]}`,
	`{"Operations":[5]}`, `{"Operations":["s"]}`, `{"Operations":[[]]}`, `{"Operations":[{}]}`, `{"Fragments":[{}]}`, `{"Fragments":[7]}`,
	`{"Operations":[{"Operation":5}]}`, `{"Operations":[{"Operation":"mutation","Name":"M","Zzz":1}]}`,
	`{"Operations":[{"SelectionSet":null}]}`, `{"Operations":[{"SelectionSet":[]}]}`, `{"Operations":[{"SelectionSet":{}}]}`,
	`{"Operations":[{"SelectionSet":5}]}`, `{"Operations":[{"SelectionSet":"s"}]}`, `{"Operations":[{"Name":"Q"}]}`,
	`{"Fragments":[{"Name":"F","TypeCondition":"T","SelectionSet":[{"Alias":"a","Name":"a"}],"VariableDefinition":null}]}`,
	`{"Fragments":[{"Name":"F","TypeCondition":7}]}`,
	`{"Fragments":[{"Name":"F","VariableDefinition":[{"Variable":"v","Type":{"NamedType":"Int","Elem":null,"NonNull":true},"DefaultValue":{"Raw":"1","Children":null,"Kind":1}}]}]}`,
	`{"Operations":[{"VariableDefinitions":[{"Variable":"v","Type":{"NamedType":"","Elem":{"NamedType":"Int","Elem":null,"NonNull":false},"NonNull":true},"Used":true}]}]}`,
	`{"Operations":[{"VariableDefinitions":[{"Variable":"v","Type":{"NamedType":"","Elem":{"NamedType":"Int"},"NonNull":5}}]}]}`,
	`{"Operations":[{"VariableDefinitions":[{"Variable":"v","Type":{}}]}]}`,
	`{"Operations":[{"VariableDefinitions":[{"Variable":"v","Type":{"NamedType":"X","Elem":{"NamedType":"Y"}}}]}]}`,
	`{"Operations":[{"VariableDefinitions":[{"Variable":"v","Type":{"Elem":5}}]}]}`,
	`{"Operations":[{"VariableDefinitions":{}}]}`,
	`{"Operations":[{"Directives":[{"Name":"d","Arguments":null,"Location":"QUERY"}]}]}`,
	`{"Operations":[{"Directives":[{"Name":"d","Location":5}]}]}`,
	`{"Operations":[{"Directives":[5]}]}`, `{"Operations":[{"Directives":"s"}]}`,
	`{"Comment":5}`, `{"Comment":{"List":null}}`, `{"Position":5}`, `{"Operations":[{"Position":5}]}`, `{"Operations":[{"Comment":5}]}`, `{"Fragments":[{"Definition":5}]}`, `{"Fragments":[{"Position":"s"}]}`,
	`{"Fragments":[{"Comment":5,"Name":"F"}]}`, `{"Operations":[{"VariableDefinitions":[{"Variable":"v","Type":{"NamedType":"Int"},"Comment":5}]}]}`,
	`{"Operations":[{"VariableDefinitions":[{"Variable":"v","Type":{"NamedType":"Int","Position":5},"Definition":"s"}]}]}`,
	`{"Operations":[{"VariableDefinitions":[{"Variable":"v","Type":{"NamedType":"Int","Position":5}}]}]}`,
}

// items of a SelectionSet array (wrapped by selDoc)
var c19HandItems = []string{
	``,
	// the three kinds as json.Marshal writes them
	`{"Alias":"a","Name":"a","Arguments":null,"Directives":null,"SelectionSet":null,"Comment":null,"Definition":null,"ObjectDefinition":null}`,
	`{"Name":"F","Directives":null,"ObjectDefinition":null,"Definition":null,"Comment":null}`,
	`{"TypeCondition":"T","Directives":null,"SelectionSet":null,"ObjectDefinition":null,"Comment":null}`,
	`{"TypeCondition":"","Directives":null,"SelectionSet":[{"Alias":"x","Name":"y"}],"ObjectDefinition":null,"Comment":null}`,
	// key combinations
	`{"Alias":"a","TypeCondition":"T"}`,
	`{"TypeCondition":"T","Alias":"a"}`,
	`{"Alias":"a","TypeCondition":"T","Name":"n","SelectionSet":[{"Name":"F"},{"TypeCondition":"U"}]}`,
	`{"Alias":null}`, `{"TypeCondition":null}`, `{"Alias":null,"TypeCondition":null}`, `{"Name":null}`,
	`{"Alias":5}`, `{"Alias":"a","Name":5}`, `{"TypeCondition":5}`, `{"TypeCondition":"T","Directives":5}`, `{"Name":5}`, `{"Name":"F","Directives":5}`,
	`{"Alias":[]}`, `{"Alias":{}}`, `{"TypeCondition":[]}`, `{"TypeCondition":true}`, `{"Alias":true}`,
	`{}`, `{"Zzz":1}`, `{"Zzz":{"Alias":"a"}}`, `{"alias":"a"}`, `{"ALIAS":"a","Name":"n"}`, `{"typeCondition":"T"}`, `{"alias":"a","TypeCondition":"T"}`,
	`{"":"x"}`, `{"Alias ":"a"}`, `{"SelectionSet":[{"Alias":"a"}]}`, `{"Name":"F","SelectionSet":[{"Alias":"a"}]}`, `{"Name":"F","SelectionSet":5}`,
	`{"Name":"F","Arguments":5}`, `{"Name":"F","Alias":"a","Arguments":5}`, `{"TypeCondition":"T","Arguments":5,"Name":7,"Alias2":1}`,
	// items that are not objects
	`null`, `null,null`, `5`, `-1`, `0`, `"s"`, `""`, `true`, `false`, `[]`, `[{"Alias":"a"}]`, `[null]`,
	`null,5,"s",true,[],{},{"Alias":"a"},{"TypeCondition":"T"},{"Name":"F"}`,
	`{"Name":"F"},null,{"Alias":"a"},7,{"TypeCondition":"T"},"x",{"Alias":1},{"Name":"G"}`,
	// nesting: every kind inside every container, junk inside
	`{"Alias":"a","Name":"a","SelectionSet":[{"Name":"F"},{"TypeCondition":"T","SelectionSet":[{"Alias":"b","Name":"b","SelectionSet":[{"Name":"G"},{"TypeCondition":""},null,3]}]}]}`,
	`{"TypeCondition":"T","SelectionSet":[{"TypeCondition":"U","SelectionSet":[{"TypeCondition":"V","SelectionSet":[{"TypeCondition":"W","SelectionSet":[{"Name":"F"},{"Alias":"a","Name":"a"},{"TypeCondition":"X"}]}]}]}]}`,
	`{"Alias":"a","SelectionSet":[{"Alias":"b","SelectionSet":[{"Alias":"c","SelectionSet":[{"Alias":"d","SelectionSet":[{"Alias":"e","SelectionSet":[{"Name":"F"},{"TypeCondition":"T"},{"Alias":"f"}]}]}]}]}]}`,
	`{"Alias":"a","SelectionSet":null}`, `{"Alias":"a","SelectionSet":[]}`, `{"Alias":"a"}`, `{"Alias":"a","SelectionSet":{}}`, `{"Alias":"a","SelectionSet":5}`, `{"Alias":"a","SelectionSet":"s"}`,
	`{"TypeCondition":"T","SelectionSet":null}`, `{"TypeCondition":"T","SelectionSet":[]}`, `{"TypeCondition":"T","SelectionSet":{}}`, `{"TypeCondition":"T","SelectionSet":[5]}`,
	`{"Alias":"a","SelectionSet":[{"Alias":5}]}`, `{"Alias":"a","SelectionSet":[{"Alias":"b","SelectionSet":7}]}`,
	// arguments, values, directives: right and wrong types
	`{"Alias":"a","Name":"a","Arguments":[{"Name":"x","Value":{"Raw":"1","Children":null,"Kind":1,"Comment":null,"Definition":null,"VariableDefinition":null,"ExpectedType":null},"Comment":null}]}`,
	`{"Alias":"a","Arguments":[{"Name":"x","Value":{"Raw":"","Children":[{"Name":"k","Value":{"Raw":"v","Kind":0},"Comment":null},{"Name":"","Value":{"Raw":"s","Kind":3}}],"Kind":9}}]}`,
	`{"Alias":"a","Arguments":[{"Name":"x","Value":{"Raw":"","Children":[{"Name":"","Value":{"Raw":"1","Kind":1}},{"Name":"","Value":{"Raw":"","Children":[],"Kind":8}}],"Kind":8}}]}`,
	`{"Alias":"a","Arguments":[]}`, `{"Alias":"a","Arguments":{}}`, `{"Alias":"a","Arguments":"s"}`, `{"Alias":"a","Arguments":[5]}`, `{"Alias":"a","Arguments":["s"]}`, `{"Alias":"a","Arguments":[[]]}`,
	`{"Alias":"a","Arguments":[{"Name":5,"Value":{"Raw":"1","Kind":1}}]}`, `{"Alias":"a","Arguments":[{"Name":"x","Value":5}]}`, `{"Alias":"a","Arguments":[{"Name":"x","Value":"s"}]}`, `{"Alias":"a","Arguments":[{"Name":"x","Value":[]}]}`,
	`{"Alias":"a","Arguments":[{"Name":"x","Value":{"Raw":5,"Kind":1}}]}`, `{"Alias":"a","Arguments":[{"Name":"x","Value":{"Raw":"1","Kind":"1"}}]}`, `{"Alias":"a","Arguments":[{"Name":"x","Value":{"Raw":"1","Kind":true}}]}`,
	`{"Alias":"a","Arguments":[{"Name":"x","Value":{"Raw":"1","Kind":null}}]}`, `{"Alias":"a","Arguments":[{"Name":"x","Value":{}}]}`, `{"Alias":"a","Arguments":[{"Name":"x","Value":{"Zzz":[1,2,{"a":null}]}}]}`,
	`{"Alias":"a","Arguments":[{"Name":"x","Value":{"Raw":"1","Kind":1,"Children":{}}}]}`, `{"Alias":"a","Arguments":[{"Name":"x","Value":{"Raw":"1","Kind":1,"Children":[5]}}]}`, `{"Alias":"a","Arguments":[{"Name":"x","Value":{"Raw":"1","Kind":1,"Children":"s"}}]}`,
	`{"Alias":"a","Directives":[{"Name":"d","Arguments":[{"Name":"x","Value":{"Raw":"v","Kind":0}}],"ParentDefinition":null,"Definition":null,"Location":""}]}`,
	`{"Alias":"a","Directives":[{"Name":"d","Arguments":5}]}`, `{"Alias":"a","Directives":[{"Name":[]}]}`, `{"Alias":"a","Directives":{}}`, `{"Alias":"a","Directives":[]}`, `{"Alias":"a","Directives":[{}]}`, `{"Alias":"a","Directives":[5]}`,
	`{"Name":"F","Directives":[{"Name":"d","Arguments":null}]}`, `{"Name":"F","Directives":[{"Name":5}]}`, `{"Name":"F","Directives":[7]}`, `{"Name":"F","Directives":{}}`, `{"Name":"F","Directives":[]}`,
	`{"TypeCondition":"T","Directives":[{"Name":"d"}],"SelectionSet":[{"Alias":"a","Name":"a"}]}`, `{"TypeCondition":"T","Directives":[{"Name":5}]}`, `{"TypeCondition":"T","Directives":[[]]}`,
	// strings
	// links, Comment, Position: null, wrong type (an object would be decoded: outside the model)
	`{"Alias":"a","Definition":null,"ObjectDefinition":null,"Position":null,"Comment":null}`, `{"Alias":"a","Definition":5}`, `{"Alias":"a","ObjectDefinition":"s"}`, `{"Alias":"a","Position":5}`, `{"Alias":"a","Position":[]}`,
	`{"Alias":"a","Comment":5}`, `{"Alias":"a","Comment":{"List":[{"Value":"#c"}]}}`, `{"Alias":"a","Position":{"Start":1}}`, `{"Alias":"a","Definition":{}}`,
	`{"Name":"F","Definition":5}`, `{"Name":"F","ObjectDefinition":[]}`, `{"Name":"F","Comment":5}`, `{"Name":"F","Comment":null,"Position":5}`, `{"Name":"F","Definition":{"Name":"F"}}`,
	`{"TypeCondition":"T","ObjectDefinition":true}`, `{"TypeCondition":"T","Position":"s"}`, `{"TypeCondition":"T","Comment":5,"Definition":5}`,
	`{"Alias":"a","Arguments":[{"Name":"x","Value":{"Raw":"1","Kind":1,"VariableDefinition":12}}]}`, `{"Alias":"a","Arguments":[{"Name":"x","Value":{"Raw":"1","Kind":1,"ExpectedType":"s"}}]}`,
	`{"Alias":"a","Arguments":[{"Name":"x","Value":{"Raw":"1","Kind":1},"Comment":5}]}`, `{"Alias":"a","Directives":[{"Name":"d","ParentDefinition":5}]}`, `{"Alias":"a","Directives":[{"Name":"d","Definition":[]}]}`,
	`{"Alias":"a","Arguments":[{"Name":"x","Value":{"Kind":9,"Children":[{"Name":"k","Value":{"Raw":"1","Kind":1},"Comment":false}]}}]}`,
	`{"Alias":"\u00e9\ud83d\ude00","Name":"<>&\u2028\"\\\/\b\f\n\r\t"}`, `{"Name":"\ud800"}`, `{"TypeCondition":"\udc00x"}`,
	// outside the tree type (the model answers `unmodelled`, counted and not compared)
	`{"Alias":"a","Arguments":[null]}`, `{"Alias":"a","Arguments":[{"Name":"x"}]}`, `{"Alias":"a","Arguments":[{"Name":"x","Value":null}]}`, `{"Alias":"a","Arguments":[{"Name":"x","Value":{"Raw":"1","Kind":12}}]}`,
	`{"Alias":"a","Directives":[null]}`, `{"Alias":"a","Arguments":[{"Name":"x","Value":{"Kind":8,"Children":[null]}}]}`, `{"Alias":"a","Arguments":[{"Name":"x","Value":{"Kind":-1}}]}`,
	// numbers that are not integer literals (outside the model's number type, counted and not compared)
	`1.5`, `{"Alias":"a","Arguments":[{"Name":"x","Value":{"Raw":"1","Kind":1.0}}]}`, `1e2`,
}

var c19SetKeys = []string{"Alias", "TypeCondition", "Name", "SelectionSet", "Directives", "Arguments", "Value", "Kind", "Raw", "Children",
	"Operation", "Type", "NamedType", "Elem", "NonNull", "Variable", "DefaultValue", "Used", "Location", "VariableDefinitions", "Zzz", "alias", "",
	// pointers to structs the tree does not hold: null or a type error in the model, an object is outside it
	"Definition", "ObjectDefinition", "ParentDefinition", "ExpectedType", "Comment", "Position", "VariableDefinition"}

var c19Junk = []string{`null`, `5`, `-1`, `3`, `12`, `"s"`, `""`, `true`, `false`, `[]`, `{}`, `[null]`, `[5,"s"]`, `{"Alias":"q"}`, `{"TypeCondition":"T"}`, `{"Name":"n"}`,
	`[{"Name":"n"},{"TypeCondition":"T"},{"Alias":"q","Name":"q"}]`, `{"Alias":"a","TypeCondition":"T","Name":"n","SelectionSet":[{"Name":"F"}]}`, `[[]]`, `"query"`, `{"NamedType":"Int","Elem":null,"NonNull":true}`,
	`{"Raw":"1","Children":null,"Kind":1}`}

func collectNodes(n *impl.JNode, acc *[]*impl.JNode) {
	if n.K == 'a' || n.K == 'o' {
		*acc = append(*acc, n)
	}
	for _, c := range n.A {
		collectNodes(c, acc)
	}
}

func junk(r *rng.R) *impl.JNode {
	n, _ := impl.ParseJSONTree([]byte(rng.Pick(r, c19Junk)))
	return n
}

// one random mutation that keeps object keys unique; returns its name
func mutateJSON(r *rng.R, root *impl.JNode) string {
	var nodes []*impl.JNode
	collectNodes(root, &nodes)
	if len(nodes) == 0 {
		return "none"
	}
	n := rng.Pick(r, nodes)
	if n.K == 'a' {
		switch k := r.Intn(6); {
		case k == 0 || len(n.A) == 0:
			at := r.Intn(len(n.A) + 1)
			n.A = append(n.A[:at:at], append([]*impl.JNode{junk(r)}, n.A[at:]...)...)
			return "array-insert"
		case k == 1:
			at := r.Intn(len(n.A))
			n.A = append(n.A[:at:at], n.A[at+1:]...)
			return "array-delete"
		case k == 2:
			at := r.Intn(len(n.A))
			n.A = append(n.A[:at+1:at+1], n.A[at:]...)
			return "array-duplicate"
		case k == 3:
			n.A[r.Intn(len(n.A))] = junk(r)
			return "array-replace"
		case k == 4:
			i, j := r.Intn(len(n.A)), r.Intn(len(n.A))
			n.A[i], n.A[j] = n.A[j], n.A[i]
			return "array-swap"
		default:
			for i, j := 0, len(n.A)-1; i < j; i, j = i+1, j-1 {
				n.A[i], n.A[j] = n.A[j], n.A[i]
			}
			return "array-reverse"
		}
	}
	free := make([]int, len(n.Key))
	for i := range n.Key {
		free[i] = i
	}
	switch k := r.Intn(5); {
	case k == 0 && len(free) > 0:
		at := rng.Pick(r, free)
		n.A = append(n.A[:at:at], n.A[at+1:]...)
		n.Key = append(n.Key[:at:at], n.Key[at+1:]...)
		return "object-delete-key"
	case k == 1 && len(free) > 0:
		n.A[rng.Pick(r, free)] = junk(r)
		return "object-replace-value"
	case k == 2 && len(free) > 1:
		i, j := rng.Pick(r, free), rng.Pick(r, free)
		n.A[i], n.A[j] = n.A[j], n.A[i]
		n.Key[i], n.Key[j] = n.Key[j], n.Key[i]
		return "object-swap-keys"
	default:
		key := rng.Pick(r, c19SetKeys)
		for i, x := range n.Key {
			if x == key {
				n.A[i] = junk(r)
				return "object-set-key"
			}
		}
		at := r.Intn(len(n.A) + 1)
		n.A = append(n.A[:at:at], append([]*impl.JNode{junk(r)}, n.A[at:]...)...)
		n.Key = append(n.Key[:at:at], append([]string{key}, n.Key[at:]...)...)
		return "object-add-key"
	}
}

func (s *c19State) decodeBatch(ins []c19JSON) {
	c := s.c
	var dreq, wreq []string
	var idx []int
	for i, in := range ins {
		s.decInputs++
		s.decKinds[in.origin]++
		tree, err := impl.ParseJSONTree([]byte(in.text))
		if err != nil {
			s.decOutside++
			continue
		}
		var sb strings.Builder
		if !tree.Sexp(&sb) {
			s.decOutside++
			continue
		}
		dreq = append(dreq, "jsondec "+sb.String())
		wreq = append(wreq, "jsondec "+impl.HexW([]byte(in.text)))
		idx = append(idx, i)
	}
	dout := c.Driver.Map(dreq)
	wout := c.Worker.Map(wreq)
	for j, i := range idx {
		in := ins[i]
		m, g := dout[j], wout[j]
		c.Ev.Case("j"+in.text, true)
		rep := map[string]any{"op": "jsondec", "input_hex": impl.HexW([]byte(in.text)), "input": in.text}
		switch {
		case m == "E,unmodelled" || g == "OUTSIDE":
			// the decoded document is not a value of the model's tree type (a nil pointer inside a list, a
			// missing Value / Type, a Kind outside 0..9): said by the model, or seen on the Go result
			s.decUnmodelled++
		case crashed(g):
			s.keep("runtime", "json-roundtrip:crash", fmt.Sprintf("json.Unmarshal of %s into a QueryDocument: %s", clip(in.text, 300), clip(g, 300)), in.text, rep)
		case strings.HasPrefix(m, "E,") && strings.HasPrefix(g, "E,"):
			s.decBothError++
			c.Ev.Traces++
		case m == g:
			s.decEqual++
			c.Ev.Traces++
		default:
			gs := g
			if strings.HasPrefix(g, "E,") {
				gs = "error: " + unhexS(g[2:])
			}
			if os.Getenv("VERIF_C19_DEBUG") != "" && len(in.text) < 700 {
				fmt.Fprintf(os.Stderr, "DECDIFF %s\n  go   =%s\n  model=%s\n", in.text, clip(gs, 400), clip(m, 400))
			}
			s.keep("correspondence", "json-model-decoder-differs", fmt.Sprintf("JSON (%s) %s:\n go   =%s\n model=%s", in.origin, clip(in.text, 600), clip(gs, 600), clip(m, 600)), in.text,
				withKeys(rep, "go_observation", gs, "model_observation", m))
		}
	}
}

/* ---------------- validated documents: informational only ---------------- */

func (s *c19State) info(class, example string) {
	s.vInfo[class]++
	if old, ok := s.vExample[class]; !ok || len(example) < len(old) {
		s.vExample[class] = example
	}
}

func (s *c19State) batchValidated(pairs [][2]string) {
	c := s.c
	wreq := make([]string, len(pairs))
	for i, p := range pairs {
		wreq[i] = "jsonrtv " + impl.HexW([]byte(p[0])) + " " + impl.HexW([]byte(p[1]))
	}
	for i, o := range c.Worker.Map(wreq) {
		t := pairs[i][1]
		if o == "PARSEERR" || o == "LOADERR" || o == "VALPANIC" {
			continue
		}
		s.vdocs++
		if crashed(o) {
			// is it the validator that crashes / hangs (C02), before any JSON is involved?
			if v := c.Worker.Map([]string{"jsonrtvv " + impl.HexW([]byte(pairs[i][0])) + " " + impl.HexW([]byte(t))})[0]; crashed(v) {
				s.vValidatorCrashes++
				s.vdocs--
				continue
			}
			class := "crash"
			if strings.HasPrefix(o, "TIMEOUT") || strings.Contains(o, "out of memory") || strings.Contains(o, "killed") {
				class = "encoding-blowup (time / memory)"
			}
			s.info(class, t)
			continue
		}
		p := strings.Split(o, "|")
		if len(p) != 4 {
			s.info("malformed-reply", t)
			continue
		}
		if p[0] == "valid" {
			s.vValid++
		} else {
			s.vInvalid++
		}
		if n, _ := strconv.Atoi(p[1]); n > 0 {
			if n > s.maxJSON {
				s.maxJSON = n
			}
			if r := n / (len(t) + 1); r > s.maxRatio {
				s.maxRatio = r
			}
		}
		if strings.HasPrefix(p[2], "E,") {
			msg := unhexS(p[2][2:])
			class := "unmarshal-fails"
			if p[1] == "0" {
				class = "marshal-fails/" + marshalErrClass(msg) + "(" + p[0] + "-document)"
			}
			s.info(class, t)
			continue
		}
		if p[3] == "-" {
			s.vLossFree++
		} else {
			for _, l := range strings.Split(p[3], ",") {
				s.info(l+"-lost", t)
			}
		}
	}
}

/* ---------------- inputs ---------------- */

var c19Minimal = []string{
	`{ a ...F ... on T { b } }`, // the witness of the repaired defect
	`{ a }`,
	`{ ...F }`,
	`{ ... { a } }`,
	`{ ... on T { a } }`,
	`{ ... @d { a } }`,
	`{ ...F @d(x: 1) }`,
	`{ ... on T @d(x: [1, {k: $v}]) @e { a } }`,
	`{ a: a b: a a: b }`,
	`{ a { b { ...F ... on T { c ...G } } } }`,
	`{ a { ... { ... on T { b { ...F ... { c } d: c ... on U @x { ...G @y } } } } } }`,
	`query Q($v: [Int!]! = [1, 2] @d) @e { x: a(b: {c: [$v, "s", 1.5, true, null, E]}) @f }`,
	`fragment F($x: Int = 3) on T @d { a ...G }`,
	`mutation { a } subscription S { b } query { c }`,
	`{ a(s: "<>&\u2028\u2029\u0000\u0008\u000c\n\r\t\"\\/\u007f é 😀") }`,
	`{ a(s: "\uD800 \uDFFF \uD83D\uDE00") }`,
	"{ a(s: \"\xff\xfe\") }",
	"{ a(s: \"\"\"block\n  string \xc3\"\"\") }",
	"# comment\n{ a # c\n }",
	"# \xff comment only\n{ a }",
}

// every sequence of three sibling kinds, at depth 5, under every chain of four containers (field / inline
// fragment with / inline fragment without type condition): 27 * 81 documents, plus the same with directives
func c19KindMatrix() []string {
	sel := func(k int, i int, dirs bool) string {
		d := ""
		if dirs {
			d = fmt.Sprintf(" @d%d(x: %d)", i, i)
		}
		switch k {
		case 0:
			if i%2 == 0 {
				return fmt.Sprintf("f%d%s", i, d)
			}
			return fmt.Sprintf("al%d: f%d%s", i, i, d)
		case 1:
			return fmt.Sprintf("...S%d%s", i, d)
		default:
			if i%2 == 0 {
				return fmt.Sprintf("... on T%d%s { leaf }", i, d)
			}
			return fmt.Sprintf("...%s { leaf }", d)
		}
	}
	open := []string{"c {", "... on C {", "... {"}
	var out []string
	for chain := 0; chain < 81; chain++ {
		for tri := 0; tri < 27; tri++ {
			var sb strings.Builder
			sb.WriteString("{ ")
			x := chain
			for l := 0; l < 4; l++ {
				sb.WriteString(open[x%3] + " ")
				x /= 3
			}
			y := tri
			for i := 0; i < 3; i++ {
				sb.WriteString(sel(y%3, i+chain, (chain+tri)%2 == 1) + " ")
				y /= 3
			}
			sb.WriteString("} } } } }")
			out = append(out, sb.String())
		}
	}
	return out
}

// the member names of the encoded tree: a decoder that tells kinds or clauses apart by looking for these
// strings must not be confused by a NAME or VALUE of the document that spells one of them
var c19KeyNames = []string{"Alias", "TypeCondition", "Name", "Arguments", "Directives", "SelectionSet", "Kind", "Raw", "Children", "Value",
	"Definition", "ObjectDefinition", "Position", "Comment", "Operation", "Operations", "Fragments", "Variable", "VariableDefinitions", "VariableDefinition",
	"Type", "NamedType", "Elem", "NonNull", "DefaultValue", "ExpectedType", "Used", "Location", "ParentDefinition", "Start", "End", "Line", "Column", "Src"}

// every member name in every name and value position of a small document
func c19KeyNameDocs() []string {
	var out []string
	for _, k := range c19KeyNames {
		out = append(out,
			"{ a ..."+k+" b } fragment "+k+" on T { x }",
			"{ ..."+k+" } fragment "+k+" on "+k+" { "+k+" }",
			"{ a ... on "+k+" { x } ..."+k+" ... { y } }",
			"{ ... on "+k+" @"+k+" { ..."+k+" } }",
			"{ "+k+": "+k+"("+k+": "+k+") @"+k+"("+k+": \""+k+"\") { "+k+" } }",
			"query "+k+"($"+k+": "+k+" = "+k+") { x: "+k+"(a: $"+k+", b: [\""+k+"\", {"+k+": \"\"\""+k+"\"\"\"}]) }",
			"subscription { ..."+k+" @skip(if: $"+k+") } mutation "+k+" { ... @"+k+" { ..."+k+" } }",
		)
	}
	return out
}

// a random selection tree with all three kinds at every level down to the given depth
type c19Tree struct {
	r  *rng.R
	sb strings.Builder
}

func (g *c19Tree) name() string {
	if g.r.Chance(1, 8) {
		return rng.Pick(g.r, c19KeyNames)
	}
	return rng.Pick(g.r, []string{"a", "b", "c", "id", "x1", "_y", "on", "fragment", "query", "true", "null", "T", "Node"})
}

func (g *c19Tree) dirs() {
	for n := g.r.Intn(4) - 1; n > 0; n-- {
		g.sb.WriteString(" @" + g.name())
		if g.r.Chance(1, 2) {
			g.sb.WriteString(`(` + g.name() + `: ` + rng.Pick(g.r, []string{"1", "-2.5e3", `"s"`, `"""b"""`, "true", "null", "E", "$v", "[1, [2]]", `{k: {l: [$w, "é"]}}`, "[]", "{}"}) + `)`)
		}
	}
}

func (g *c19Tree) selSet(depth int) {
	g.sb.WriteString(" {")
	n := 1 + g.r.Intn(4)
	for i := 0; i < n; i++ {
		g.sb.WriteByte(' ')
		k := g.r.Intn(3)
		if depth <= 1 && k == 2 && g.r.Chance(1, 2) {
			k = g.r.Intn(2)
		}
		switch k {
		case 0:
			nm := g.name()
			switch g.r.Intn(3) {
			case 0:
				g.sb.WriteString(nm + ": " + nm) // alias written out, equal to the name
			case 1:
				g.sb.WriteString(g.name() + "2: " + nm)
			default:
				g.sb.WriteString(nm)
			}
			if g.r.Chance(1, 4) {
				g.sb.WriteString(`(` + g.name() + `: ` + rng.Pick(g.r, []string{"1", `"s"`, "$v", "[E, null]", `{a: 1, b: {c: []}}`}) + `)`)
			}
			g.dirs()
			if depth > 1 && (g.r.Chance(2, 3) || i == 0) {
				g.selSet(depth - 1)
			}
		case 1:
			nm := g.name()
			if nm == "on" {
				nm = "On"
			}
			g.sb.WriteString("..." + nm)
			g.dirs()
		default:
			g.sb.WriteString("...")
			if g.r.Chance(1, 2) {
				g.sb.WriteString(" on " + g.name())
			}
			g.dirs()
			if depth > 1 {
				g.selSet(depth - 1)
			} else {
				g.sb.WriteString(" { " + g.name() + " }")
			}
		}
	}
	g.sb.WriteString(" }")
}

func c19DeepDoc(r *rng.R) string {
	g := &c19Tree{r: r}
	for n := 1 + r.Intn(2); n > 0; n-- {
		switch r.Intn(3) {
		case 0:
			g.selSet(4 + r.Intn(4))
		case 1:
			g.sb.WriteString(rng.Pick(r, []string{"query", "mutation", "subscription"}) + " " + g.name())
			g.dirs()
			g.selSet(4 + r.Intn(4))
		default:
			nm := g.name()
			if nm == "on" {
				nm = "On"
			}
			g.sb.WriteString("fragment " + nm + " on " + g.name())
			g.dirs()
			g.selSet(4 + r.Intn(4))
		}
		g.sb.WriteByte(' ')
	}
	return g.sb.String()
}

// a fragment DAG whose validated encoding doubles at every level: F0 { ...F1 ...F1 }, F1 { ...F2 ...F2 }, …
func c19Doubling(n int) string {
	var sb strings.Builder
	sb.WriteString("{ ...F0 }")
	for i := 0; i < n; i++ {
		fmt.Fprintf(&sb, " fragment F%d on Query { ...F%d ...F%d }", i, i+1, i+1)
	}
	fmt.Fprintf(&sb, " fragment F%d on Query { __typename }", n)
	return sb.String()
}

func checkC19(c *Ctx) {
	s := newC19State(c)

	// 0. strings: escaping and the UTF-8 coercion
	{
		var ins [][]byte
		for b := 0; b < 256; b++ {
			ins = append(ins, []byte{byte(b)}, []byte{'a', byte(b), 'b'})
		}
		for _, r := range []rune{0x7f, 0x80, 0x7ff, 0x800, 0x2027, 0x2028, 0x2029, 0x202a, 0xd7ff, 0xe000, 0xfffd, 0xfffe, 0xffff, 0x10000, 0x1f600, 0x10ffff} {
			ins = append(ins, []byte("x"+string(r)+"y"))
		}
		ins = append(ins, []byte("\xed\xa0\x80"), []byte("\xe2\x80"), []byte("\xf4\x90\x80\x80"), []byte("\xc0\x80"), []byte{})
		n := c.Pick(20000, 200000)
		for i := 0; i < n; i++ {
			ins = append(ins, GenBytes(c.R, 24))
		}
		var reqs []string
		for _, in := range ins {
			h := impl.HexW(in)
			reqs = append(reqs, "jsonstr "+h, "jsonsan "+h)
		}
		out := c.Driver.Map(reqs)
		for i, in := range ins {
			h := impl.HexW(in)
			g1, g2 := impl.Call("jsonstrgo", []string{h}), impl.Call("jsonsango", []string{h})
			c.Ev.Traces += 2
			if out[2*i] != g1 {
				c.Report("correspondence", "json-string-model-differs", fmt.Sprintf("json.Marshal(%q)=%s, renderString=%s", in, unhexS(g1), unhexS(out[2*i])), map[string]any{"op": "jsonstr", "input_hex": h})
			}
			if out[2*i+1] != g2 {
				c.Report("correspondence", "json-string-model-differs", fmt.Sprintf("Unmarshal(Marshal(%q))=%q, sanitize=%q", in, unhexS(g2), unhexS(out[2*i+1])), map[string]any{"op": "jsonsan", "input_hex": h})
			}
		}
		c.Ev.Count("string_cases", len(ins))
	}

	// 1. the comparison of selection kinds is alive
	s.detectorAlive()

	// 2. parsed documents
	qs, _ := RepoGraphQLInputs()
	s.batch(qs)
	s.batch(c19Minimal)
	matrix := c19KindMatrix()
	s.batch(matrix)
	s.batch(c19KeyNameDocs())
	corpus := len(qs) + len(c19Minimal)
	total := c.Pick(6000, 120000)
	if v := os.Getenv("VERIF_C19_DOCS"); v != "" {
		total, _ = strconv.Atoi(v)
	}
	const batch = 3000
	var schemas []*gen.Schema
	for i := 0; i < 24; i++ {
		schemas = append(schemas, gen.GenSchema(c.R.Fork(uint64(1000+i)), i%12))
	}
	genKinds := map[string]int{}
	for done := 0; done < total; done += batch {
		var texts []string
		for i := 0; i < batch; i++ {
			r := c.R.Fork(uint64(7_000_000 + done + i))
			sc := schemas[(done+i)%len(schemas)]
			switch i % 5 {
			case 0, 1:
				texts = append(texts, GenQueryText(r, i%10 == 0, i%6 == 1, false))
				genKinds["grammar-generator"]++
			case 2:
				texts = append(texts, gen.GenDoc(r, sc, 1+r.Intn(12)).Text)
				genKinds["typed-generator"]++
			case 3:
				texts = append(texts, c19DeepDoc(r))
				genKinds["deep-selection-trees"]++
			default:
				texts = append(texts, gen.GenBlindDocument(r, sc, 1+r.Intn(10)))
				genKinds["type-blind-generator"]++
			}
		}
		s.batch(texts)
	}

	// 3. the decoder on JSON that json.Marshal does not write
	{
		var ins []c19JSON
		for _, t := range c19HandJSON {
			ins = append(ins, c19JSON{"hand-written document", t})
		}
		for _, t := range c19HandItems {
			ins = append(ins, c19JSON{"hand-written selection items", selDoc(t)})
			// the same items one level down, inside a field and inside an inline fragment
			ins = append(ins, c19JSON{"hand-written selection items", selDoc(`{"Alias":"w","Name":"w","SelectionSet":[` + t + `]}`)})
			ins = append(ins, c19JSON{"hand-written selection items", selDoc(`{"TypeCondition":"W","SelectionSet":[` + t + `]}`)})
			ins = append(ins, c19JSON{"hand-written selection items", `{"Fragments":[{"Name":"F","SelectionSet":[` + t + `]}]}`})
		}
		s.decodeBatch(ins)
		nmut := c.Pick(12000, 150000)
		muts := map[string]int{}
		ins = ins[:0]
		for i := 0; i < nmut && len(s.jsonSample) > 0; i++ {
			r := c.R.Fork(uint64(11_000_000 + i))
			tree, err := impl.ParseJSONTree([]byte(s.jsonSample[i%len(s.jsonSample)]))
			if err != nil {
				continue
			}
			for k := 1 + r.Intn(3); k > 0; k-- {
				muts[mutateJSON(r, tree)]++
			}
			var sb strings.Builder
			tree.Text(&sb)
			ins = append(ins, c19JSON{"mutated encoding", sb.String()})
			if len(ins) == batch {
				s.decodeBatch(ins)
				ins = ins[:0]
			}
		}
		s.decodeBatch(ins)
		c.Ev.Extra["c19_decoder_inputs"] = map[string]any{
			"inputs": s.decInputs, "by_origin": s.decKinds, "mutations_applied": muts,
			"equal_trees": s.decEqual, "both_reject": s.decBothError,
			"not_compared_model_says_unmodelled": s.decUnmodelled, "not_compared_outside_json_type": s.decOutside,
		}
	}

	// 4. validated documents — outside the property's domain, informational
	vtotal := c.Pick(1500, 30000)
	for done := 0; done < vtotal; done += batch {
		var pairs [][2]string
		for i := 0; i < batch && done+i < vtotal; i++ {
			r := c.R.Fork(uint64(9_000_000 + done + i))
			sc := schemas[(done+i)%len(schemas)]
			sdl := sc.SDL()
			switch i % 4 {
			case 0, 1:
				pairs = append(pairs, [2]string{sdl, gen.GenDoc(r, sc, 1+r.Intn(10)).Text})
			case 2:
				pairs = append(pairs, [2]string{sdl, gen.InjectDocFault(r, sc, 1+r.Intn(8)).Doc})
			default:
				pairs = append(pairs, [2]string{sdl, gen.GenBlindDocument(r, sc, 1+r.Intn(8))})
			}
		}
		s.batchValidated(pairs)
	}
	const tinySchema = "type Query { a: Query b: Int }"
	adv := [][2]string{
		{tinySchema, "{ ...F } fragment F on Query { a { ...F } }"},
		{tinySchema, "{ ...F } fragment F on Query { ...G } fragment G on Query { ...F }"},
		{tinySchema, "{ a { ...F } } fragment F on Query { b }"},
		{tinySchema, "query ($v: Int = 1) { a { b @include(if: true) } x: b @skip(if: false) ... on Query { b } }"},
	}
	for n := 1; n <= c.Pick(10, 13); n++ {
		adv = append(adv, [2]string{tinySchema, c19Doubling(n)})
	}
	s.batchValidated(adv)

	sigs, found := s.flush()
	depth := map[string]int{}
	for d, n := range s.depthHist {
		depth[fmt.Sprintf("max_depth_%02d", d)] = n
	}
	c.Ev.Extra["c19"] = map[string]any{
		"documents_tried": s.docs, "documents_parsed": s.parsed, "corpus_documents": corpus, "kind_order_matrix_documents": len(matrix),
		"generated_by":         genKinds,
		"with_fragment_spread": s.withSpread, "with_inline_fragment": s.withInline,
		"model_encoding_equal_bytes": s.encEqual, "encoding_not_compared_comments": s.encSkippedComments,
		"model_roundtrip_equal": s.rtEqual, "loss_free": s.lossFree,
		"utf8CleanB_true": s.wfTrue, "utf8CleanB_false": s.wfFalse, "sourceCleanB_true": s.srcTrue, "sourceCleanB_false": s.srcFalse,
		"loss_classes": s.losses, "findings_cases": found,
	}
	c.Ev.Extra["c19_shape_coverage"] = map[string]any{
		"documents_by_max_selection_depth": depth,
		"documents_with": map[string]int{
			"field_at_depth>=4": s.cov["fd>=4"], "spread_at_depth>=4": s.cov["sd>=4"], "inline_fragment_at_depth>=4": s.cov["id>=4"],
			"field_at_depth>=6": s.cov["fd>=6"], "spread_at_depth>=6": s.cov["sd>=6"], "inline_fragment_at_depth>=6": s.cov["id>=6"],
			"inline_fragment_without_type_condition": s.cov["notc"], "spread_with_directives": s.cov["sdir"], "inline_fragment_with_directives": s.cov["idir"],
			"field_alias_equals_name": s.cov["aeq"], "field_alias_differs_from_name": s.cov["ane"],
			"field_with_selection_set": s.cov["fsel"], "field_without_selection_set": s.cov["flf"],
		},
		"sibling_kind_pairs_seen_at_depth>=4_of_9":    len(s.bi4),
		"sibling_kind_triples_seen_at_depth>=4_of_27": len(s.tri4),
		"sibling_kind_triples_seen_at_depth>=4":       c19SortedKeys(s.tri4),
		"note": "a parsed document never has an EMPTY selection set (the grammar requires one selection); absent (nil) sets come from leaf fields, " +
			"and empty-vs-null-vs-absent SelectionSet values are exercised on the decoder by the hand-written JSON inputs",
	}
	c.Ev.Extra["c19_validated_informational"] = map[string]any{
		"note":                "validated documents are outside the domain of C19; nothing here is a violation or a known finding",
		"validated_documents": s.vdocs, "valid": s.vValid, "invalid": s.vInvalid, "loss_free": s.vLossFree,
		"validator_crashes_before_encoding_owned_by_C02": s.vValidatorCrashes,
		"max_json_bytes": s.maxJSON, "max_json_over_text_ratio": s.maxRatio,
		"classes": s.vInfo, "smallest_example": s.vExample,
	}
	for k, n := range s.vInfo {
		c.Ev.Count("validated_informational:"+k, n)
	}
	if len(s.tri4) < 27 || len(s.bi4) < 9 {
		c.Report("runtime", "json-generator-coverage", fmt.Sprintf("only %d of 27 sibling-kind triples and %d of 9 pairs were exercised at depth >= 4", len(s.tri4), len(s.bi4)), map[string]any{"op": "coverage"})
	}
	c.Ev.Assume = append(c.Ev.Assume,
		"theorem C19_roundtrip assumes utf8CleanB d (every string of the tree is well-formed UTF-8); C19_parsed_document_wellformed proves it for every parsed document from sourceCleanB inp (every token value of the lexer model is well-formed UTF-8); that sourceCleanB holds for every source text that is valid UTF-8 is tested on every source of this run (json-wf-assumption-fails), not proved",
		"the theorems compose encoder and decoder on the JSON value; that json.Marshal writes exactly the text of that value and json.Unmarshal reads it back is tested (byte-equal encodings, equal decodings of the texts), not proved")
	c.Ev.Rule = "a case is one parsed document (compared with the model and judged), one JSON decoder input (compared with the model) or one string; distinct = distinct texts"
	fmt.Printf("C19: documents tried=%d parsed=%d (spread %d, inline %d) model-encoding-equal=%d (comments skipped %d) model-roundtrip-equal=%d loss-free=%d utf8CleanB true/false=%d/%d sourceCleanB true/false=%d/%d\n",
		s.docs, s.parsed, s.withSpread, s.withInline, s.encEqual, s.encSkippedComments, s.rtEqual, s.lossFree, s.wfTrue, s.wfFalse, s.srcTrue, s.srcFalse)
	fmt.Printf("C19: shape: depth>=4 field/spread/inline docs=%d/%d/%d, no-type-condition=%d, spread/inline with directives=%d/%d, alias =/≠ name=%d/%d, sibling triples at depth>=4: %d/27, pairs: %d/9\n",
		s.cov["fd>=4"], s.cov["sd>=4"], s.cov["id>=4"], s.cov["notc"], s.cov["sdir"], s.cov["idir"], s.cov["aeq"], s.cov["ane"], len(s.tri4), len(s.bi4))
	fmt.Printf("C19: decoder inputs=%d equal=%d both-reject=%d unmodelled=%d outside-json-type=%d\n", s.decInputs, s.decEqual, s.decBothError, s.decUnmodelled, s.decOutside)
	fmt.Printf("C19: (informational, outside the property) validated documents=%d (valid %d, invalid %d) loss-free=%d max-json=%d bytes max json/text ratio=%d classes=%v\n",
		s.vdocs, s.vValid, s.vInvalid, s.vLossFree, s.maxJSON, s.maxRatio, s.vInfo)
	for _, k := range sigs {
		fmt.Printf("    %-55s %d\n", k, found[k])
	}
}

func c19SortedKeys(m map[string]bool) []string {
	ks := make([]string, 0, len(m))
	for k := range m {
		ks = append(ks, k)
	}
	sort.Strings(ks)
	return ks
}

// flush reports the smallest input per signature, in a stable order
func (s *c19State) flush() ([]string, map[string]int) {
	sigs := make([]string, 0, len(s.findings))
	for k := range s.findings {
		sigs = append(sigs, k)
	}
	sort.Strings(sigs)
	found := map[string]int{}
	for _, k := range sigs {
		f := s.findings[k]
		found[k] = f.n
		s.c.Report(f.kind, k, f.what, f.replay)
	}
	return sigs, found
}

func init() {
	Checks["C19"] = checkC19
	Replayers["C19"] = func(c *Ctx, rep map[string]any) {
		s := newC19State(c)
		in, _ := rep["input_hex"].(string)
		b, _ := impl.UnhexW(in)
		switch op, _ := rep["op"].(string); op {
		case "jsonstr", "jsonsan":
			g := impl.Call(op+"go", []string{in})
			if m := c.Driver.Map([]string{op + " " + in})[0]; m != g {
				c.Report("correspondence", "json-string-model-differs", fmt.Sprintf("go=%s model=%s", g, m), rep)
			}
		case "jsondec":
			s.decodeBatch([]c19JSON{{"replay", string(b)}})
		case "jsonrtlegacytop":
			s.detectorAlive()
		case "coverage":
		default:
			s.batch([]string{string(b)})
		}
		s.flush()
	}
}
