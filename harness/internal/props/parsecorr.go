package props

import (
	"fmt"
	"strconv"
	"strings"

	"verifharness/internal/impl"
	"verifharness/internal/rng"
)

// Correspondence of the parser model (lean/GqlModel/Parser) with parser.ParseQuery*/ParseSchema*:
// ops `pq`, `ps` (and `pss` for several sources) on both sides, replies compared as strings.

// Enumeration alphabets (token classes, rendered with single spaces). QTok16 is the query
// alphabet of DESIGN C05; STok16 are the four schema alphabets of C06.
var QTok16 = []string{"{", "}", "(", ")", "[", "]", ":", "$", "@", "!", "=", "...", "a", "on", "query", "fragment"}

var STok16 = [][]string{
	{"{", "}", "(", ")", ":", "@", "a", `"d"`, "type", "interface", "implements", "&", "extend", "=", "|", "union"},
	{"{", "}", "(", ")", ":", "@", "a", `"d"`, "schema", "query", "extend", "directive", "on", "repeatable", "QUERY", "|"},
	{"{", "}", "(", ")", "[", "]", ":", "!", "=", "a", "1", `"d"`, "input", "enum", "extend", "@"},
	{"{", "}", ":", "a", `"d"`, "scalar", "enum", "union", "=", "|", "&", "@", "extend", "type", "implements", "1"},
}

// EnumTokenSeqs calls f with every sequence of at most n symbols of alpha joined by single spaces.
func EnumTokenSeqs(alpha []string, n int, f func(s []byte)) {
	for l := 0; l <= n; l++ {
		idx := make([]int, l)
		for {
			var sb strings.Builder
			for k, i := range idx {
				if k > 0 {
					sb.WriteByte(' ')
				}
				sb.WriteString(alpha[i])
			}
			f([]byte(sb.String()))
			k := l - 1
			for k >= 0 {
				idx[k]++
				if idx[k] < len(alpha) {
					break
				}
				idx[k] = 0
				k--
			}
			if k < 0 {
				break
			}
		}
	}
}

func parseOp(grammar string) string {
	if grammar == "schema" {
		return "ps"
	}
	return "pq"
}

// TokenCount is the number of non-EOF tokens (comments included) the real lexer produces before
// EOF or its first error.
func TokenCount(in []byte) int {
	r := impl.LexAll(string(in))
	n := len(r.Toks)
	if r.Err == nil && !r.Fuel && n > 0 {
		n-- // EOF
	}
	return n
}

// CorrParseReqs runs request lines (`pq …`, `ps …`, `pss …`) on the real parser (worker
// subprocesses) and on the Lean model and reports every difference. Returns the Go observations.
func (c *Ctx) CorrParseReqs(reqs []string, space string) []string {
	model := c.Driver.Map(reqs)
	real := c.Worker.Map(reqs)
	for i := range reqs {
		if real[i] == "SKIPPED" {
			continue
		}
		c.Ev.Traces++
		if c.JudgeParse {
			c.judgeParse(reqs[i], real[i])
		}
		if real[i] != model[i] || obsClass(real[i]) == "other" {
			f := strings.Fields(reqs[i])
			in := ""
			if len(f) > 2 {
				b, _ := impl.UnhexW(f[2])
				in = string(b)
			}
			c.Report("correspondence", "parse-model-differs",
				fmt.Sprintf("parser and Lean model disagree (%s): %s input=%q go=%s model=%s", space, strings.Join(f[:min(2, len(f))], " "), clip(in, 300), clip(real[i], 400), clip(model[i], 400)),
				map[string]any{"op": f[0], "request": reqs[i], "go_observation": real[i], "model_observation": model[i]})
		}
	}
	return real
}

func clip(s string, n int) string {
	if len(s) > n {
		return s[:n] + "…"
	}
	return s
}

// CorrParse compares Go and model for every input × limit (limit -1 = the API without a limit).
// grammar is "query" or "schema".
func (c *Ctx) CorrParse(grammar string, inputs [][]byte, limits []int) {
	op := parseOp(grammar)
	const batch = 200000
	reqs := make([]string, 0, batch)
	flush := func() {
		if len(reqs) == 0 {
			return
		}
		obs := c.CorrParseReqs(reqs, grammar)
		for _, o := range obs {
			c.Ev.Case(o, o != "(Q () ())" && o != "(SDOC () () () () ())")
			c.Ev.Count(grammar+"/"+obsClass(o), 1)
		}
		reqs = reqs[:0]
	}
	for _, in := range inputs {
		h := impl.HexW(in)
		for _, l := range limits {
			reqs = append(reqs, op+" "+strconv.Itoa(l)+" "+h)
			if len(reqs) >= batch {
				flush()
			}
		}
	}
	flush()
}

// CorrParseAround uses the limits {-1, 0, 1, 2, 3, n-1, n, n+1}, n = token count of the input.
func (c *Ctx) CorrParseAround(grammar string, inputs [][]byte) {
	op := parseOp(grammar)
	var reqs []string
	for _, in := range inputs {
		n := TokenCount(in)
		seen := map[int]bool{}
		h := impl.HexW(in)
		for _, l := range []int{-1, 0, 1, 2, 3, n - 1, n, n + 1} {
			if l >= -1 && !seen[l] {
				seen[l] = true
				reqs = append(reqs, op+" "+strconv.Itoa(l)+" "+h)
			}
		}
	}
	for _, o := range c.CorrParseReqs(reqs, grammar+"-corpus") {
		c.Ev.Case(o, true)
		c.Ev.Count(grammar+"-corpus/"+obsClass(o), 1)
	}
}

func obsClass(o string) string {
	switch {
	case strings.HasPrefix(o, "("):
		return "ok"
	case strings.HasPrefix(o, "E,0,0,"):
		return "limit-error"
	case strings.HasPrefix(o, "E,"):
		return "syntax-error"
	}
	return "other"
}

// splitRough cuts a document into lexical pieces (names/numbers, strings, comments, `...`,
// punctuators, blank runs) — good enough to mutate "one token".
func splitRough(s string) []string {
	var out []string
	isWord := func(b byte) bool {
		return b == '_' || b == '-' || b >= '0' && b <= '9' || b >= 'a' && b <= 'z' || b >= 'A' && b <= 'Z' || b >= 0x80
	}
	i := 0
	for i < len(s) {
		j := i + 1
		switch b := s[i]; {
		case isWord(b):
			for j < len(s) && isWord(s[j]) {
				j++
			}
		case b == '"':
			if strings.HasPrefix(s[i:], `"""`) {
				if k := strings.Index(s[i+3:], `"""`); k >= 0 {
					j = i + 3 + k + 3
				} else {
					j = len(s)
				}
			} else {
				for j < len(s) && s[j] != '"' && s[j] != '\n' {
					if s[j] == '\\' {
						j++
					}
					j++
				}
				if j < len(s) {
					j++
				}
				if j > len(s) {
					j = len(s)
				}
			}
		case b == '#':
			for j < len(s) && s[j] != '\n' {
				j++
			}
		case b == '.' && strings.HasPrefix(s[i:], "..."):
			j = i + 3
		case b == ' ' || b == '\t' || b == '\n' || b == '\r' || b == ',':
			for j < len(s) && (s[j] == ' ' || s[j] == '\t' || s[j] == '\n' || s[j] == '\r' || s[j] == ',') {
				j++
			}
		}
		out = append(out, s[i:j])
		i = j
	}
	return out
}

var mutVocab = []string{"{", "}", "(", ")", "[", "]", ":", "$", "@", "!", "=", "...", "|", "&", "a", "on", "query", "mutation", "subscription",
	"fragment", "type", "interface", "union", "enum", "input", "scalar", "schema", "directive", "extend", "implements", "repeatable",
	"true", "false", "null", "1", "-1.5e3", `"s"`, `"""b"""`, `""`, "QUERY", "FIELD", "$v", "@d", "#c\n", "\n", "\ufeff", ",", " ", "\"", "'", "é", "\x00", "0x"}

var mutTrivia = []string{"#c\n", "# é\n", "#\n", "\n", "\r\n", "\r", "\ufeff", ",", " ", "\t"}

// MutateTokens applies one random single-token mutation (delete, duplicate, swap, substitute,
// insert trivia) to a document.
func MutateTokens(r *rng.R, s string) string {
	p := splitRough(s)
	if len(p) == 0 {
		return rng.Pick(r, mutVocab)
	}
	i := r.Intn(len(p))
	q := append([]string(nil), p...)
	switch r.Intn(6) {
	case 0: // delete
		q = append(q[:i], q[i+1:]...)
	case 1: // duplicate
		q = append(q[:i+1], append([]string{" ", p[i]}, q[i+1:]...)...)
	case 2: // swap with the next non-blank piece
		j := i + 1
		for j < len(q) && strings.TrimLeft(q[j], " \t\r\n,") == "" {
			j++
		}
		if j < len(q) {
			q[i], q[j] = q[j], q[i]
		}
	case 3: // substitute
		q[i] = rng.Pick(r, mutVocab)
	case 4: // insert a token
		q = append(q[:i], append([]string{" ", rng.Pick(r, mutVocab), " "}, q[i:]...)...)
	default: // insert trivia
		q = append(q[:i], append([]string{rng.Pick(r, mutTrivia)}, q[i:]...)...)
	}
	return strings.Join(q, "")
}

func toBytes(ss []string) [][]byte {
	out := make([][]byte, len(ss))
	for i, s := range ss {
		out[i] = []byte(s)
	}
	return out
}

// corrQuote ties the model of strconv.Quote (error messages quote token values).
func (c *Ctx) corrQuote(inputs [][]byte) {
	reqs := make([]string, len(inputs))
	for i, in := range inputs {
		reqs[i] = "goquote " + impl.HexW(in)
	}
	model := c.Driver.Map(reqs)
	for i, in := range inputs {
		g := impl.Call("goquote", []string{impl.HexW(in)})
		c.Ev.Traces++
		if g != model[i] {
			c.Report("correspondence", "goquote-model-differs", fmt.Sprintf("strconv.Quote and model disagree on %x: go=%s model=%s", in, g, model[i]),
				map[string]any{"op": "goquote", "input_hex": impl.HexW(in), "go_observation": g, "model_observation": model[i]})
		}
	}
}

// ParseCorrSuite is the whole correspondence run of the parser layer; the knobs are the sizes.
func (c *Ctx) ParseCorrSuite(qLen, sLen, mutations, randoms int) {
	qs, ss := RepoGraphQLInputs()
	// (a) repository corpus, limits around the token count; schemas are also tried as queries and
	// vice versa (error paths)
	c.CorrParseAround("query", toBytes(qs))
	c.CorrParseAround("schema", toBytes(ss))
	c.CorrParse("schema", toBytes(qs), []int{-1, 5})
	c.CorrParse("query", toBytes(ss), []int{-1, 5})
	c.Ev.Count("corpus-queries", len(qs))
	c.Ev.Count("corpus-schemas", len(ss))
	// several sources at once
	var multi []string
	for i := 0; i+2 < len(ss) && i < 400; i++ {
		for _, l := range []int{-1, 7, 1000} {
			multi = append(multi, "pss "+strconv.Itoa(l)+" "+impl.HexW([]byte(ss[i]))+" "+impl.HexW([]byte(ss[i+1]))+" "+impl.HexW([]byte(ss[i+2])))
		}
	}
	multi = append(multi, "pss -1", "pss 3")
	c.CorrParseReqs(multi, "multi-source")
	// (b) exhaustive token sequences
	var batch [][]byte
	EnumTokenSeqs(QTok16, qLen, func(s []byte) { batch = append(batch, s) })
	c.CorrParse("query", batch, []int{-1})
	c.Ev.Count("enum-query", len(batch))
	batch = batch[:0]
	EnumTokenSeqs(QTok16, min(qLen, 4), func(s []byte) { batch = append(batch, s) })
	c.CorrParse("query", batch, []int{1, 2, 3, 4})
	for _, alpha := range STok16 {
		batch = batch[:0]
		EnumTokenSeqs(alpha, sLen, func(s []byte) { batch = append(batch, s) })
		c.CorrParse("schema", batch, []int{-1, 3})
		c.Ev.Count("enum-schema", len(batch))
	}
	// (c) single-token mutations of corpus inputs
	for _, g := range []struct {
		grammar string
		corpus  []string
	}{{"query", qs}, {"schema", ss}} {
		var reqs []string
		op := parseOp(g.grammar)
		for i := 0; i < mutations/2; i++ {
			m := MutateTokens(c.R, rng.Pick(c.R, g.corpus))
			if c.R.Chance(1, 4) {
				m = MutateTokens(c.R, m)
			}
			h := impl.HexW([]byte(m))
			reqs = append(reqs, op+" -1 "+h)
			if c.R.Chance(1, 3) {
				reqs = append(reqs, op+" "+strconv.Itoa(1+c.R.Intn(TokenCount([]byte(m))+2))+" "+h)
			}
		}
		obs := c.CorrParseReqs(reqs, g.grammar+"-mutation")
		for _, o := range obs {
			c.Ev.Case(o, true)
			c.Ev.Count(g.grammar+"-mutation/"+obsClass(o), 1)
		}
	}
	// nesting families (recursion depth): unbalanced and balanced, with and without limits
	var nest [][]byte
	for _, n := range []int{1, 2, 5, 20, 100, 400} {
		rep := strings.Repeat
		for _, d := range []string{
			"{a(x:" + rep("[", n), "{a(x:" + rep("[", n) + "1" + rep("]", n) + ")}", "{a(x:" + rep("{a:", n) + "1" + rep("}", n) + ")}",
			rep("{a", n), rep("{a", n) + rep("}", n), "query(" + rep("$a:[", n), "query($a:" + rep("[", n) + "Int" + rep("]", n) + "){a}",
			"{a" + rep("@a(a:[", n), rep("...{", n) + "a" + rep("}", n), rep("#c\n", n) + "{a}", "{" + rep(" a", n) + "}",
			"type T{a:" + rep("[", n) + "Int" + rep("]!", n) + "}", "type T{a(b:Int=" + rep("[", n) + rep("]", n) + "):Int}",
			"type T implements " + rep("A&", n) + "B{a:Int}", "union U=" + rep("A|", n) + "B", "directive @d on " + rep("FIELD|", n) + "QUERY",
			"type T" + rep("@a", n) + "{a:Int}",
		} {
			nest = append(nest, []byte(d))
		}
	}
	c.CorrParse("query", nest, []int{-1, 7, 150})
	c.CorrParse("schema", nest, []int{-1, 7, 150})
	// (d) random byte strings
	var rnd [][]byte
	for i := 0; i < randoms; i++ {
		rnd = append(rnd, GenBytes(c.R, 48))
	}
	c.CorrParse("query", rnd, []int{-1, 2})
	c.CorrParse("schema", rnd, []int{-1, 2})
	// strconv.Quote: every rune boundary class, all 1- and 2-byte strings sampled, random bytes
	var qin [][]byte
	for r := rune(0); r < 0x3000; r++ {
		qin = append(qin, []byte(string(r)))
	}
	for r := rune(0x3000); r <= 0x10FFFF; r += 7 {
		qin = append(qin, []byte(string(r)))
	}
	for b := 0; b < 256; b++ {
		qin = append(qin, []byte{byte(b)}, []byte{0xE2, byte(b)}, []byte{byte(b), 0x80, 0x80})
	}
	for i := 0; i < 20000; i++ {
		qin = append(qin, GenBytes(c.R, 12))
	}
	c.corrQuote(qin)
}

func init() {
	Checks["X-parse"] = func(c *Ctx) {
		c.ParseCorrSuite(5, 4, 200000, 100000)
		fmt.Println("parse correspondence: traces", c.Ev.Traces, "counters", c.Ev.Counters)
	}
	Checks["X-parse-quick"] = func(c *Ctx) {
		c.ParseCorrSuite(3, 3, 4000, 2000)
		fmt.Println("parse correspondence: traces", c.Ev.Traces, "counters", c.Ev.Counters)
	}
}
