package props

import (
	"encoding/hex"
	"fmt"
	"regexp"
	"sort"
	"strings"
	"sync"

	"verifharness/internal/impl"
)

// every error format literal of validator/schema.go
var loadTemplates = []string{
	"Cannot redeclare type %s.",
	"Cannot extend type %s because the base type is a %s, not %s.",
	"Cannot redeclare directive %s.",
	"Cannot have multiple schema entry points, consider schema extensions instead.",
	"Schema root %s refers to a type %s that does not exist.",
	"Schema root %s is defined more than once.",
	"Schema root %s must be an object type, %s is a %s.",
	"Undefined type \"%s\".",
	"Undefined type %s.",
	"%s type %s must be %s.",
	"%s %s: must define one or more fields.",
	"%s %s: field must be one of %s.",
	"%s %s: must define one or more unique enum values.",
	"%s %s: non-enum value %s.",
	"%s %s: must define one or more input fields.",
	"Field %s.%s can only be defined once.",
	"cannot use %s as argument %s because %s is not a valid input type",
	"Directive %s cannot refer to itself.",
	"Undefined directive %s.",
	"Directive %s is not applicable on %s.",
	"Undefined argument %s for directive %s.",
	"Argument %s for directive %s cannot be null.",
	"%s is a non interface type %s.",
	"For %s to implement %s it must have a field called %s.",
	"For %s to implement %s the field %s must have type %s.",
	"For %s to implement %s the field %s must have the same arguments but it is missing %s.",
	"For %s to implement %s the field %s must have the same arguments but %s has the wrong type.",
	"For %s to implement %s any additional arguments on %s must be optional or have a default value but %s is required.",
	"Type %s cannot implement %s because it would create a circular reference.",
	"Type %s must implement %s because it is implemented by %s.",
	"Name \"%s\" must not begin with \"__\", which is reserved by GraphQL introspection.",
}

var loadTemplateRx = func() []*regexp.Regexp {
	out := make([]*regexp.Regexp, len(loadTemplates))
	for i, t := range loadTemplates {
		q := regexp.QuoteMeta(t)
		q = strings.ReplaceAll(q, "%s", `[^ ]*`)
		if strings.HasSuffix(t, "must be %s.") || strings.Contains(t, "one of %s.") || strings.Contains(t, "must have type %s.") {
			q = regexp.QuoteMeta(t)
			q = strings.ReplaceAll(q, "%s", `.*`)
		}
		out[i] = regexp.MustCompile("^" + q + "$")
	}
	return out
}()

// LoadTemplateOf classifies a loader error message ("" when none of schema.go's templates matches: a parse error).
func LoadTemplateOf(msg string) string {
	for i, rx := range loadTemplateRx {
		if rx.MatchString(msg) {
			return loadTemplates[i]
		}
	}
	return ""
}

type LoadStats struct {
	mu        sync.Mutex
	Cases     int
	Loaded    int
	Rejected  int
	ParseErr  int
	Panics    int
	Templates map[string]int
}

func (s *LoadStats) Print() {
	fmt.Printf("load cases=%d loaded=%d rejected-by-loader=%d parse-errors=%d panics=%d\n", s.Cases, s.Loaded, s.Rejected, s.ParseErr, s.Panics)
	var never []string
	for _, t := range loadTemplates {
		if s.Templates[t] == 0 {
			never = append(never, t)
		}
		fmt.Printf("  %8d  %s\n", s.Templates[t], t)
	}
	if len(never) == 0 {
		fmt.Println("every error template of schema.go was reached")
	} else {
		fmt.Println("templates NEVER reached:")
		for _, t := range never {
			fmt.Println("   ", t)
		}
	}
}

func hexAll(texts []string) string {
	var sb strings.Builder
	for i, t := range texts {
		if i > 0 {
			sb.WriteByte(' ')
		}
		sb.WriteString(impl.HexW([]byte(t)))
	}
	return sb.String()
}

func errMessage(obs string) string {
	f := strings.SplitN(obs, ",", 5)
	if len(f) != 5 {
		return ""
	}
	b, _ := impl.UnhexW(f[4])
	return string(b)
}

func normPanic(s string) string {
	if strings.HasPrefix(s, "PANIC") {
		return "PANIC"
	}
	return s
}

// LoadCase is what CorrLoad learns about one source set (used by the spec checks that follow it).
type LoadCase struct {
	Sources []string
	Doc     string // merged document S-expression ("" on parse error)
	GoObs   string // loaded schema S-expression, E,…, or PANIC:…
	Expect  byte   // 0 none, 'v' valid by construction (must load), 'f' single injected fault (must be rejected)
	Label   string // clause/variant of the injected fault
}

// CorrLoad: for each source set, `mergedoc` via Go, the S-expression to the driver's `load`,
// compared with Go's `loaddoc`.
func (c *Ctx) CorrLoad(sourceSets [][]string) []LoadCase {
	return c.corrLoad(sourceSets, nil)
}

func (c *Ctx) corrLoad(sourceSets [][]string, st *LoadStats) []LoadCase {
	n := len(sourceSets)
	mreq := make([]string, n)
	lreq := make([]string, n)
	for i, set := range sourceSets {
		h := hexAll(set)
		mreq[i] = "mergedoc " + h
		lreq[i] = "loaddoc " + h
	}
	docs := c.Worker.Map(mreq)
	goObs := c.Worker.Map(lreq)
	var dreq []string
	var didx []int
	for i := range docs {
		if strings.HasPrefix(docs[i], "(") {
			dreq = append(dreq, "load "+docs[i])
			didx = append(didx, i)
		}
	}
	model := c.Driver.Map(dreq)
	out := make([]LoadCase, n)
	for i := range out {
		out[i] = LoadCase{Sources: sourceSets[i], GoObs: goObs[i]}
		if strings.HasPrefix(docs[i], "(") {
			out[i].Doc = docs[i]
		}
	}
	replay := func(i int, m string) map[string]any {
		return map[string]any{"op": "load", "sources": sourceSets[i], "sources_hex": hexAll(sourceSets[i]), "go_observation": clipL(goObs[i]), "model_observation": clipL(m)}
	}
	for k, i := range didx {
		c.Ev.Traces++
		if normPanic(goObs[i]) != model[k] {
			c.Report("correspondence", "load-model-differs",
				fmt.Sprintf("loader and Lean model disagree on %q: go=%s model=%s", sourceSets[i], describeObs(goObs[i]), describeObs(model[k])), replay(i, model[k]))
		}
	}
	for i := range docs {
		if !strings.HasPrefix(docs[i], "(") {
			// parse error: mergedoc and loaddoc must report the same error (no model involved)
			if docs[i] != goObs[i] {
				c.Report("correspondence", "load-parse-error-differs", fmt.Sprintf("mergedoc=%s loaddoc=%s on %q", describeObs(docs[i]), describeObs(goObs[i]), sourceSets[i]), replay(i, ""))
			}
		}
		if strings.HasPrefix(goObs[i], "PANIC") || strings.HasPrefix(goObs[i], "CRASH") || goObs[i] == "TIMEOUT" {
			b, _ := hex.DecodeString(strings.TrimPrefix(goObs[i], "PANIC:"))
			c.Report("runtime", "load-panic", fmt.Sprintf("LoadSchema panics (%s) on %q", b, sourceSets[i]), replay(i, ""))
		}
	}
	if st != nil {
		st.mu.Lock()
		for i := range docs {
			st.Cases++
			switch {
			case !strings.HasPrefix(docs[i], "("):
				st.ParseErr++
			case strings.HasPrefix(goObs[i], "("):
				st.Loaded++
			case strings.HasPrefix(goObs[i], "E,"):
				st.Rejected++
				if t := LoadTemplateOf(errMessage(goObs[i])); t != "" {
					st.Templates[t]++
				} else {
					st.Templates["?? "+errMessage(goObs[i])]++
				}
			default:
				st.Panics++
			}
		}
		st.mu.Unlock()
	}
	return out
}

func clipL(s string) string {
	if len(s) > 4000 {
		return s[:4000] + "…"
	}
	return s
}

func describeObs(o string) string {
	if strings.HasPrefix(o, "E,") {
		f := strings.SplitN(o, ",", 5)
		if len(f) == 5 {
			return fmt.Sprintf("E(line %s col %s src %s %q)", f[1], f[2], f[3], errMessage(o))
		}
	}
	if len(o) > 160 {
		return o[:160] + "…"
	}
	return o
}

// loadCorpus: every schema input of the repository corpus.
func loadCorpus() []string {
	_, ss := RepoGraphQLInputs()
	ss = append(ss, SpecSchemas(RepoSnap+"/validator/imported/spec/schemas.yml")...)
	ss = append(ss, loadSeeds...)
	seen := map[string]bool{}
	var out []string
	for _, s := range ss {
		if !seen[s] {
			seen[s] = true
			out = append(out, s)
		}
	}
	sort.Strings(out)
	return out
}

// loadSeeds: hand-written inputs for corners the repository corpus does not visit.
var loadSeeds = []string{
	// nil entry in PossibleTypes (undeclared union member) dereferenced by isCovariant
	"interface I { f: U }\ntype A implements I { f: A }\nunion U = X\n",
	"interface I { f: U }\ntype A implements I { f: A }\nunion U = A | X\n",
	"interface I { f: U }\ntype A implements I { f: A }\nunion U = X | A\n",
	"interface I { f: U }\ntype A implements I { f: T }\ntype T implements U { a: Int }\nunion U = X\n",
	"interface I { f: U }\ntype A implements I { f: T }\nunion U = X\ntype T implements U { a: Int }\n",
	// R7a, R7b, R7c, R17a
	"interface I{f(a:String!):Int} type T implements I{f(a:String):Int}\n",
	"directive @skip(if: Boolean!) on FIELD\ndirective @skip on OBJECT\ntype Query @skip { a: Int }\n",
	"enum E { __A }\ntype Query { e: E }\n",
	"type A { a: Int } type B { b: Int }\nextend schema { query: A }\nextend schema { query: B }\n",
	"schema { query: A query: B } type A { a: Int } type B { b: Int }\n",
	"schema { query: S } scalar S\n",
	"type Query { a(x: [[Int!]!]! = [[1]]): [Query!]! }\ninterface J implements K { id: ID } interface K implements J { id: ID }\n",
	"interface I implements I { a: Int }\ntype Query implements I { a: Int }\n",
	"type Query { a: Int } extend type Query { a: Int }\nextend scalar Foo @specifiedBy(url: \"x\")\n",
	"directive @d(a: Int! @d) on ARGUMENT_DEFINITION\ntype Query { a: Int }\n",
	"union U = U\ntype Query { u: U }\ninput In { a: In! = {a: null} }\n",
}

// RepoSnap is the repository tree the corpora are read from.
const RepoSnap = "/var/tmp/repo-snap13"
