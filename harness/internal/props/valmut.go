package props

import (
	"fmt"
	"sort"
	"strings"

	"github.com/vektah/gqlparser/v2/ast"
	"github.com/vektah/gqlparser/v2/parser"

	"verifharness/internal/rng"
)

// ---------- a small printer for executable documents (the library formatter drops parts) ----------

func quoteGQL(s string) string {
	var sb strings.Builder
	sb.WriteByte('"')
	for _, r := range s {
		switch {
		case r == '"' || r == '\\':
			sb.WriteByte('\\')
			sb.WriteRune(r)
		case r == '\n':
			sb.WriteString(`\n`)
		case r == '\t':
			sb.WriteString(`\t`)
		case r == '\r':
			sb.WriteString(`\r`)
		case r < 0x20 || r == 0xFFFD:
			fmt.Fprintf(&sb, `\u%04X`, r)
		default:
			sb.WriteRune(r)
		}
	}
	sb.WriteByte('"')
	return sb.String()
}

func printValue(sb *strings.Builder, v *ast.Value) {
	if v == nil {
		sb.WriteString("null")
		return
	}
	switch v.Kind {
	case ast.Variable:
		sb.WriteString("$" + v.Raw)
	case ast.StringValue, ast.BlockValue:
		sb.WriteString(quoteGQL(v.Raw))
	case ast.ListValue:
		sb.WriteByte('[')
		for i, c := range v.Children {
			if i > 0 {
				sb.WriteByte(' ')
			}
			printValue(sb, c.Value)
		}
		sb.WriteByte(']')
	case ast.ObjectValue:
		sb.WriteByte('{')
		for i, c := range v.Children {
			if i > 0 {
				sb.WriteByte(' ')
			}
			sb.WriteString(c.Name + ": ")
			printValue(sb, c.Value)
		}
		sb.WriteByte('}')
	default:
		sb.WriteString(v.Raw)
	}
}

func printArgs(sb *strings.Builder, as ast.ArgumentList) {
	if len(as) == 0 {
		return
	}
	sb.WriteByte('(')
	for i, a := range as {
		if i > 0 {
			sb.WriteString(", ")
		}
		sb.WriteString(a.Name + ": ")
		printValue(sb, a.Value)
	}
	sb.WriteByte(')')
}

func printDirs(sb *strings.Builder, ds ast.DirectiveList) {
	for _, d := range ds {
		sb.WriteString(" @" + d.Name)
		printArgs(sb, d.Arguments)
	}
}

func printSels(sb *strings.Builder, ss ast.SelectionSet, ind string) {
	if len(ss) == 0 {
		return
	}
	sb.WriteString(" {\n")
	for _, s := range ss {
		sb.WriteString(ind + "  ")
		switch s := s.(type) {
		case *ast.Field:
			if s.Alias != "" && s.Alias != s.Name {
				sb.WriteString(s.Alias + ": ")
			}
			sb.WriteString(s.Name)
			printArgs(sb, s.Arguments)
			printDirs(sb, s.Directives)
			printSels(sb, s.SelectionSet, ind+"  ")
		case *ast.FragmentSpread:
			sb.WriteString("..." + s.Name)
			printDirs(sb, s.Directives)
		case *ast.InlineFragment:
			sb.WriteString("...")
			if s.TypeCondition != "" {
				sb.WriteString(" on " + s.TypeCondition)
			}
			printDirs(sb, s.Directives)
			if len(s.SelectionSet) == 0 {
				sb.WriteString(" { __typename }")
			}
			printSels(sb, s.SelectionSet, ind+"  ")
		}
		sb.WriteByte('\n')
	}
	sb.WriteString(ind + "}")
}

// PrintQueryDoc renders a (possibly mutated) document; the result is re-parsed before use.
func PrintQueryDoc(d *ast.QueryDocument) string {
	var sb strings.Builder
	for _, op := range d.Operations {
		opk := string(op.Operation)
		if opk == "" {
			opk = "query"
		}
		if opk == "query" && op.Name == "" && len(op.VariableDefinitions) == 0 && len(op.Directives) == 0 {
			var b strings.Builder
			printSels(&b, op.SelectionSet, "")
			t := strings.TrimPrefix(b.String(), " ")
			if t == "" {
				t = "{ __typename }"
			}
			sb.WriteString(t + "\n")
			continue
		}
		sb.WriteString(opk)
		if op.Name != "" {
			sb.WriteString(" " + op.Name)
		}
		if len(op.VariableDefinitions) > 0 {
			sb.WriteByte('(')
			for i, v := range op.VariableDefinitions {
				if i > 0 {
					sb.WriteString(", ")
				}
				sb.WriteString("$" + v.Variable + ": " + v.Type.String())
				if v.DefaultValue != nil {
					sb.WriteString(" = ")
					printValue(&sb, v.DefaultValue)
				}
				printDirs(&sb, v.Directives)
			}
			sb.WriteByte(')')
		}
		printDirs(&sb, op.Directives)
		if len(op.SelectionSet) == 0 {
			sb.WriteString(" { __typename }")
		}
		printSels(&sb, op.SelectionSet, "")
		sb.WriteString("\n")
	}
	for _, f := range d.Fragments {
		sb.WriteString("fragment " + f.Name + " on " + f.TypeCondition)
		printDirs(&sb, f.Directives)
		if len(f.SelectionSet) == 0 {
			sb.WriteString(" { __typename }")
		}
		printSels(&sb, f.SelectionSet, "")
		sb.WriteString("\n")
	}
	return sb.String()
}

// ---------- name pools ----------

type NamePool struct {
	Types, Fields, Args, Enums, Dirs, InputFields, All []string
}

func uniqSorted(xs []string) []string {
	m := map[string]bool{}
	for _, x := range xs {
		if x != "" {
			m[x] = true
		}
	}
	out := make([]string, 0, len(m))
	for x := range m {
		out = append(out, x)
	}
	sort.Strings(out)
	return out
}

// PoolOfSchema collects the names a document can refer to.
func PoolOfSchema(s *ast.Schema) *NamePool {
	p := &NamePool{}
	for _, t := range s.Types {
		p.Types = append(p.Types, t.Name)
		for _, f := range t.Fields {
			if t.Kind == ast.InputObject {
				p.InputFields = append(p.InputFields, f.Name)
			} else {
				p.Fields = append(p.Fields, f.Name)
			}
			for _, a := range f.Arguments {
				p.Args = append(p.Args, a.Name)
			}
		}
		for _, e := range t.EnumValues {
			p.Enums = append(p.Enums, e.Name)
		}
	}
	for _, d := range s.Directives {
		p.Dirs = append(p.Dirs, d.Name)
		for _, a := range d.Arguments {
			p.Args = append(p.Args, a.Name)
		}
	}
	p.Fields = append(p.Fields, "__typename", "__schema", "__type")
	p.Dirs = append(p.Dirs, "repeatable", "oneOf")
	p.Types, p.Fields, p.Args, p.Enums, p.Dirs, p.InputFields = uniqSorted(p.Types), uniqSorted(p.Fields), uniqSorted(p.Args), uniqSorted(p.Enums), uniqSorted(p.Dirs), uniqSorted(p.InputFields)
	p.All = uniqSorted(append(append(append(append(append(append([]string{}, p.Types...), p.Fields...), p.Args...), p.Enums...), p.Dirs...), p.InputFields...))
	return p
}

// ---------- mutation sites ----------

type nameSite struct {
	p   *string
	cat int // 0 field 1 type 2 fragment 3 variable 4 directive 5 argument 6 input field 7 enum value
}

type sites struct {
	names []nameSite
	sels  []*ast.SelectionSet
	args  []*ast.ArgumentList
	dirs  []*ast.DirectiveList
	vals  []**ast.Value
	objs  []*ast.Value
	types []*ast.Type
	vars  []*ast.VariableDefinitionList
	ops   []*ast.OperationDefinition
	frags []string
	varNm []string
}

func (s *sites) value(pp **ast.Value) {
	v := *pp
	if v == nil {
		return
	}
	s.vals = append(s.vals, pp)
	switch v.Kind {
	case ast.Variable:
		s.names = append(s.names, nameSite{&v.Raw, 3})
	case ast.EnumValue:
		s.names = append(s.names, nameSite{&v.Raw, 7})
	case ast.ObjectValue:
		s.objs = append(s.objs, v)
	}
	for _, c := range v.Children {
		if v.Kind == ast.ObjectValue {
			s.names = append(s.names, nameSite{&c.Name, 6})
		}
		s.value(&c.Value)
	}
}

func (s *sites) arguments(as *ast.ArgumentList) {
	s.args = append(s.args, as)
	for _, a := range *as {
		s.names = append(s.names, nameSite{&a.Name, 5})
		s.value(&a.Value)
	}
}

func (s *sites) directives(ds *ast.DirectiveList) {
	s.dirs = append(s.dirs, ds)
	for _, d := range *ds {
		s.names = append(s.names, nameSite{&d.Name, 4})
		s.arguments(&d.Arguments)
	}
}

func (s *sites) typ(t *ast.Type) {
	for t != nil {
		s.types = append(s.types, t)
		if t.NamedType != "" {
			s.names = append(s.names, nameSite{&t.NamedType, 1})
		}
		t = t.Elem
	}
}

func (s *sites) selections(ss *ast.SelectionSet) {
	s.sels = append(s.sels, ss)
	for _, x := range *ss {
		switch x := x.(type) {
		case *ast.Field:
			s.names = append(s.names, nameSite{&x.Name, 0})
			s.arguments(&x.Arguments)
			s.directives(&x.Directives)
			s.selections(&x.SelectionSet)
		case *ast.FragmentSpread:
			s.names = append(s.names, nameSite{&x.Name, 2})
			s.directives(&x.Directives)
		case *ast.InlineFragment:
			if x.TypeCondition != "" {
				s.names = append(s.names, nameSite{&x.TypeCondition, 1})
			}
			s.directives(&x.Directives)
			s.selections(&x.SelectionSet)
		}
	}
}

func collectSites(d *ast.QueryDocument) *sites {
	s := &sites{}
	for _, op := range d.Operations {
		s.ops = append(s.ops, op)
		s.vars = append(s.vars, &op.VariableDefinitions)
		for _, v := range op.VariableDefinitions {
			s.names = append(s.names, nameSite{&v.Variable, 3})
			s.varNm = append(s.varNm, v.Variable)
			s.typ(v.Type)
			if v.DefaultValue != nil {
				s.value(&v.DefaultValue)
			}
			s.directives(&v.Directives)
		}
		s.directives(&op.Directives)
		s.selections(&op.SelectionSet)
	}
	for _, f := range d.Fragments {
		s.frags = append(s.frags, f.Name)
		s.names = append(s.names, nameSite{&f.Name, 2}, nameSite{&f.TypeCondition, 1})
		s.directives(&f.Directives)
		s.selections(&f.SelectionSet)
	}
	return s
}

var freshNames = []string{"zz", "x1", "Foo", "name", "id", "a", "F9", "Int", "String", "Boolean", "ID", "Float"}

func randLiteral(r *rng.R, pool *NamePool, depth int) *ast.Value {
	switch r.Intn(12) {
	case 0:
		return &ast.Value{Kind: ast.IntValue, Raw: rng.Pick(r, []string{"0", "1", "-7", "42", "2147483647", "2147483648", "-2147483649", "9223372036854775807", "9223372036854775808", "99999999999999999999"})}
	case 1:
		return &ast.Value{Kind: ast.FloatValue, Raw: rng.Pick(r, []string{"1.5", "-0.0", "1e3", "2.5E-2", "1e308", "1e309", "1.7976931348623157e308", "1.7976931348623159e308", "0e999", "4.9e-400"})}
	case 2:
		return &ast.Value{Kind: ast.StringValue, Raw: rng.Pick(r, []string{"", "abc", "SIT", "a\"b", "line\nbreak", "tab\there", "café", "123", "123456789012", "true", "\u0007bell", " nbsp", "\U0001F600"})}
	case 3:
		return &ast.Value{Kind: ast.BooleanValue, Raw: rng.Pick(r, []string{"true", "false"})}
	case 4:
		return &ast.Value{Kind: ast.NullValue, Raw: "null"}
	case 5:
		if len(pool.Enums) > 0 && r.Chance(3, 4) {
			return &ast.Value{Kind: ast.EnumValue, Raw: rng.Pick(r, pool.Enums)}
		}
		return &ast.Value{Kind: ast.EnumValue, Raw: rng.Pick(r, []string{"SITT", "sit", "Heel", "UNKNOWN", "x"})}
	case 6:
		return &ast.Value{Kind: ast.Variable, Raw: rng.Pick(r, []string{"v", "a", "b", "undef", "x"})}
	case 7, 8:
		v := &ast.Value{Kind: ast.ListValue}
		if depth < 2 {
			for i := r.Intn(3); i > 0; i-- {
				v.Children = append(v.Children, &ast.ChildValue{Value: randLiteral(r, pool, depth+1)})
			}
		}
		return v
	default:
		v := &ast.Value{Kind: ast.ObjectValue}
		if depth < 2 {
			for i := r.Intn(3); i > 0; i-- {
				n := "f"
				if len(pool.InputFields) > 0 && r.Chance(3, 4) {
					n = rng.Pick(r, pool.InputFields)
				}
				v.Children = append(v.Children, &ast.ChildValue{Name: n, Value: randLiteral(r, pool, depth+1)})
			}
		}
		return v
	}
}

func pickNameV(r *rng.R, pool *NamePool, s *sites, cat int) string {
	if r.Chance(1, 6) {
		return rng.Pick(r, freshNames)
	}
	var from []string
	switch cat {
	case 0:
		from = pool.Fields
	case 1:
		from = pool.Types
	case 2:
		from = append(append([]string{}, s.frags...), "Missing")
	case 3:
		from = append(append([]string{}, s.varNm...), "undef")
	case 4:
		from = pool.Dirs
	case 5:
		from = pool.Args
	case 6:
		from = pool.InputFields
	case 7:
		from = pool.Enums
	}
	if len(from) == 0 || r.Chance(1, 8) {
		from = pool.All
	}
	if len(from) == 0 {
		return "zz"
	}
	n := rng.Pick(r, from)
	if r.Chance(1, 10) && len(n) > 1 {
		// a near miss: drop, double or change one letter (exercises the suggestion lists)
		i := r.Intn(len(n))
		switch r.Intn(3) {
		case 0:
			n = n[:i] + n[i+1:]
		case 1:
			n = n[:i] + n[i:i+1] + n[i:]
		default:
			n = n[:i] + "x" + n[i+1:]
		}
		if n == "" || (n[0] >= '0' && n[0] <= '9') {
			n = "q" + n
		}
	}
	return n
}

func cloneValue(v *ast.Value) *ast.Value {
	if v == nil {
		return nil
	}
	c := &ast.Value{Kind: v.Kind, Raw: v.Raw}
	for _, ch := range v.Children {
		c.Children = append(c.Children, &ast.ChildValue{Name: ch.Name, Value: cloneValue(ch.Value)})
	}
	return c
}

// mutateOnce applies one random mutation in place; false if the chosen site kind is absent.
func mutateOnce(r *rng.R, d *ast.QueryDocument, pool *NamePool) bool {
	s := collectSites(d)
	if len(s.sels) == 0 || len(s.dirs) == 0 {
		return false
	}
	switch r.Intn(22) {
	case 0, 1, 2, 3: // rename
		if len(s.names) == 0 {
			return false
		}
		ns := rng.Pick(r, s.names)
		*ns.p = pickNameV(r, pool, s, ns.cat)
	case 4: // delete / duplicate a selection
		ss := rng.Pick(r, s.sels)
		if len(*ss) == 0 {
			return false
		}
		i := r.Intn(len(*ss))
		if r.Bool() && len(*ss) > 1 {
			*ss = append(append(ast.SelectionSet{}, (*ss)[:i]...), (*ss)[i+1:]...)
		} else {
			*ss = append(*ss, (*ss)[i])
		}
	case 5: // insert a selection
		ss := rng.Pick(r, s.sels)
		switch r.Intn(5) {
		case 0:
			*ss = append(*ss, &ast.FragmentSpread{Name: pickNameV(r, pool, s, 2)})
		case 1:
			*ss = append(*ss, &ast.InlineFragment{TypeCondition: pickNameV(r, pool, s, 1), SelectionSet: ast.SelectionSet{&ast.Field{Name: pickNameV(r, pool, s, 0)}}})
		case 2:
			*ss = append(*ss, &ast.InlineFragment{SelectionSet: append(ast.SelectionSet{}, *ss...)})
		case 3:
			*ss = append(*ss, &ast.Field{Name: "__typename", Alias: rng.Pick(r, []string{"", "t", "name"})})
		default:
			f := &ast.Field{Name: pickNameV(r, pool, s, 0)}
			if r.Bool() {
				f.SelectionSet = ast.SelectionSet{&ast.Field{Name: pickNameV(r, pool, s, 0)}}
			}
			if r.Chance(1, 3) {
				f.Arguments = ast.ArgumentList{{Name: pickNameV(r, pool, s, 5), Value: randLiteral(r, pool, 0)}}
			}
			*ss = append(*ss, f)
		}
	case 6: // arguments: delete / duplicate / add
		if len(s.args) == 0 {
			return false
		}
		as := rng.Pick(r, s.args)
		switch {
		case len(*as) > 0 && r.Chance(1, 3):
			i := r.Intn(len(*as))
			*as = append(append(ast.ArgumentList{}, (*as)[:i]...), (*as)[i+1:]...)
		case len(*as) > 0 && r.Bool():
			a := (*as)[r.Intn(len(*as))]
			*as = append(*as, &ast.Argument{Name: a.Name, Value: cloneValue(a.Value)})
		default:
			*as = append(*as, &ast.Argument{Name: pickNameV(r, pool, s, 5), Value: randLiteral(r, pool, 0)})
		}
	case 7: // variable definitions: delete / duplicate / add
		if len(s.vars) == 0 {
			return false
		}
		vs := rng.Pick(r, s.vars)
		switch {
		case len(*vs) > 0 && r.Chance(1, 3):
			i := r.Intn(len(*vs))
			*vs = append(append(ast.VariableDefinitionList{}, (*vs)[:i]...), (*vs)[i+1:]...)
		case len(*vs) > 0 && r.Bool():
			v := (*vs)[r.Intn(len(*vs))]
			*vs = append(*vs, &ast.VariableDefinition{Variable: v.Variable, Type: v.Type, DefaultValue: cloneValue(v.DefaultValue)})
		default:
			t := &ast.Type{NamedType: pickNameV(r, pool, s, 1), NonNull: r.Chance(1, 3)}
			if r.Chance(1, 4) {
				t = &ast.Type{Elem: t, NonNull: r.Chance(1, 3)}
			}
			nv := &ast.VariableDefinition{Variable: rng.Pick(r, []string{"v", "a", "b", "x"}), Type: t}
			if r.Chance(1, 3) {
				nv.DefaultValue = randLiteral(r, pool, 0)
				if nv.DefaultValue.Kind == ast.Variable {
					nv.DefaultValue = &ast.Value{Kind: ast.IntValue, Raw: "99999999999999999999"}
				}
			}
			*vs = append(*vs, nv)
		}
	case 8: // directives: delete / duplicate / add
		ds := rng.Pick(r, s.dirs)
		switch {
		case len(*ds) > 0 && r.Chance(1, 3):
			i := r.Intn(len(*ds))
			*ds = append(append(ast.DirectiveList{}, (*ds)[:i]...), (*ds)[i+1:]...)
		case len(*ds) > 0 && r.Bool():
			*ds = append(*ds, (*ds)[r.Intn(len(*ds))])
		default:
			nd := &ast.Directive{Name: pickNameV(r, pool, s, 4)}
			if r.Bool() {
				nd.Arguments = ast.ArgumentList{{Name: rng.Pick(r, []string{"if", "reason", "x", pickNameV(r, pool, s, 5)}), Value: randLiteral(r, pool, 0)}}
			}
			*ds = append(*ds, nd)
		}
	case 9: // fragments: delete / duplicate / add (cycle, unused, chain)
		switch {
		case len(d.Fragments) > 0 && r.Chance(1, 4):
			i := r.Intn(len(d.Fragments))
			d.Fragments = append(append(ast.FragmentDefinitionList{}, d.Fragments[:i]...), d.Fragments[i+1:]...)
		case len(d.Fragments) > 0 && r.Chance(1, 4):
			f := d.Fragments[r.Intn(len(d.Fragments))]
			d.Fragments = append(d.Fragments, &ast.FragmentDefinition{Name: f.Name, TypeCondition: f.TypeCondition, SelectionSet: f.SelectionSet})
		default:
			name := rng.Pick(r, []string{"F1", "F2", "F3", "G"})
			nf := &ast.FragmentDefinition{Name: name, TypeCondition: pickNameV(r, pool, s, 1)}
			switch r.Intn(4) {
			case 0:
				nf.SelectionSet = ast.SelectionSet{&ast.FragmentSpread{Name: name}}
			case 1:
				nf.SelectionSet = ast.SelectionSet{&ast.Field{Name: pickNameV(r, pool, s, 0)}, &ast.FragmentSpread{Name: pickNameV(r, pool, s, 2)}, &ast.FragmentSpread{Name: pickNameV(r, pool, s, 2)}}
			case 2:
				nf.SelectionSet = ast.SelectionSet{&ast.Field{Name: pickNameV(r, pool, s, 0), SelectionSet: ast.SelectionSet{&ast.FragmentSpread{Name: pickNameV(r, pool, s, 2)}, &ast.Field{Name: pickNameV(r, pool, s, 0)}}}}
			default:
				nf.SelectionSet = ast.SelectionSet{&ast.Field{Name: pickNameV(r, pool, s, 0), Arguments: ast.ArgumentList{{Name: pickNameV(r, pool, s, 5), Value: randLiteral(r, pool, 0)}}}}
			}
			d.Fragments = append(d.Fragments, nf)
		}
	case 10: // operations: delete / duplicate / add / change kind / rename
		switch {
		case len(d.Operations) > 1 && r.Chance(1, 4):
			i := r.Intn(len(d.Operations))
			d.Operations = append(append(ast.OperationList{}, d.Operations[:i]...), d.Operations[i+1:]...)
		case len(d.Operations) > 0 && r.Chance(1, 4):
			op := d.Operations[r.Intn(len(d.Operations))]
			d.Operations = append(d.Operations, &ast.OperationDefinition{Operation: op.Operation, Name: op.Name, SelectionSet: op.SelectionSet, VariableDefinitions: op.VariableDefinitions})
		case len(d.Operations) > 0 && r.Chance(1, 2):
			op := d.Operations[r.Intn(len(d.Operations))]
			op.Operation = rng.Pick(r, []ast.Operation{ast.Query, ast.Mutation, ast.Subscription})
			if r.Bool() {
				op.Name = rng.Pick(r, []string{"", "Q", "Foo", "ab"})
			}
		default:
			nop := &ast.OperationDefinition{Operation: rng.Pick(r, []ast.Operation{ast.Query, ast.Mutation, ast.Subscription}), Name: rng.Pick(r, []string{"", "Q", "Foo"})}
			nop.SelectionSet = ast.SelectionSet{&ast.Field{Name: pickNameV(r, pool, s, 0)}}
			if len(s.frags) > 0 && r.Bool() {
				nop.SelectionSet = append(nop.SelectionSet, &ast.FragmentSpread{Name: rng.Pick(r, s.frags)})
			}
			d.Operations = append(d.Operations, nop)
		}
	case 11, 12, 13: // swap a value for a literal of another kind
		if len(s.vals) == 0 {
			return false
		}
		pp := rng.Pick(r, s.vals)
		*pp = randLiteral(r, pool, 1)
	case 14: // wrap / unwrap lists and objects
		if len(s.vals) == 0 {
			return false
		}
		pp := rng.Pick(r, s.vals)
		v := *pp
		switch {
		case (v.Kind == ast.ListValue || v.Kind == ast.ObjectValue) && len(v.Children) > 0 && r.Bool():
			*pp = v.Children[0].Value
		case r.Bool():
			*pp = &ast.Value{Kind: ast.ListValue, Children: ast.ChildValueList{{Value: v}}}
		default:
			n := "f"
			if len(pool.InputFields) > 0 {
				n = rng.Pick(r, pool.InputFields)
			}
			*pp = &ast.Value{Kind: ast.ObjectValue, Children: ast.ChildValueList{{Name: n, Value: v}}}
		}
	case 15: // object literals: add / delete / duplicate a field
		if len(s.objs) == 0 {
			return false
		}
		o := rng.Pick(r, s.objs)
		switch {
		case len(o.Children) > 0 && r.Chance(1, 3):
			i := r.Intn(len(o.Children))
			o.Children = append(append(ast.ChildValueList{}, o.Children[:i]...), o.Children[i+1:]...)
		case len(o.Children) > 0 && r.Chance(1, 3):
			c := o.Children[r.Intn(len(o.Children))]
			o.Children = append(o.Children, &ast.ChildValue{Name: c.Name, Value: cloneValue(c.Value)})
		default:
			o.Children = append(o.Children, &ast.ChildValue{Name: pickNameV(r, pool, s, 6), Value: randLiteral(r, pool, 1)})
		}
	case 16, 17: // types: toggle `!`, wrap / unwrap list
		if len(s.types) == 0 {
			return false
		}
		t := rng.Pick(r, s.types)
		switch r.Intn(3) {
		case 0:
			t.NonNull = !t.NonNull
		case 1:
			inner := *t
			*t = ast.Type{Elem: &inner, NonNull: r.Bool()}
		default:
			if t.Elem != nil {
				*t = *t.Elem
			} else {
				t.NonNull = !t.NonNull
			}
		}
	case 18: // replace a value by a variable that exists
		if len(s.vals) == 0 || len(s.varNm) == 0 {
			return false
		}
		pp := rng.Pick(r, s.vals)
		*pp = &ast.Value{Kind: ast.Variable, Raw: rng.Pick(r, s.varNm)}
	case 19: // alias
		var fs []*ast.Field
		for _, ss := range s.sels {
			for _, x := range *ss {
				if f, ok := x.(*ast.Field); ok {
					fs = append(fs, f)
				}
			}
		}
		if len(fs) == 0 {
			return false
		}
		rng.Pick(r, fs).Alias = pickNameV(r, pool, s, 0)
	case 20: // move a selection into a new fragment and spread it (twice)
		ss := rng.Pick(r, s.sels)
		if len(*ss) == 0 {
			return false
		}
		name := rng.Pick(r, []string{"M1", "M2"})
		d.Fragments = append(d.Fragments, &ast.FragmentDefinition{Name: name, TypeCondition: pickNameV(r, pool, s, 1), SelectionSet: append(ast.SelectionSet{}, *ss...)})
		*ss = ast.SelectionSet{&ast.FragmentSpread{Name: name}}
		if r.Bool() {
			*ss = append(*ss, &ast.FragmentSpread{Name: name})
		}
	default: // default value on a variable definition
		var vds []*ast.VariableDefinition
		for _, vs := range s.vars {
			vds = append(vds, *vs...)
		}
		if len(vds) == 0 {
			return false
		}
		v := rng.Pick(r, vds)
		if v.DefaultValue != nil && r.Bool() {
			v.DefaultValue = nil
		} else {
			v.DefaultValue = randLiteral(r, pool, 1)
			if v.DefaultValue.Kind == ast.Variable {
				v.DefaultValue = &ast.Value{Kind: ast.FloatValue, Raw: "1e999"}
			}
		}
	}
	return true
}

func hasVarInConst(v *ast.Value) bool {
	if v == nil {
		return false
	}
	if v.Kind == ast.Variable {
		return true
	}
	for _, c := range v.Children {
		if hasVarInConst(c.Value) {
			return true
		}
	}
	return false
}

// MutateDoc parses src, applies n random mutations and prints the result; ok=false when the
// source or the result does not parse.
func MutateDoc(r *rng.R, src string, pool *NamePool, n int) (string, bool) {
	d, err := parser.ParseQuery(&ast.Source{Input: src})
	if err != nil {
		return "", false
	}
	for i := 0; i < n; i++ {
		for try := 0; try < 4 && !mutateOnce(r, d, pool); try++ {
		}
	}
	for _, op := range d.Operations {
		for _, v := range op.VariableDefinitions {
			if hasVarInConst(v.DefaultValue) {
				return "", false
			}
		}
	}
	out := PrintQueryDoc(d)
	if _, err := parser.ParseQuery(&ast.Source{Input: out}); err != nil {
		return "", false
	}
	return out, true
}
