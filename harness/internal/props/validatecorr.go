package props

import (
	"encoding/hex"
	"fmt"
	"os"
	"path/filepath"
	"regexp"
	"sort"
	"strconv"
	"strings"
	"sync"

	"gopkg.in/yaml.v3"

	"verifharness/internal/impl"
)

// RepoDir is the tree whose validator is under test (the harness is linked against it).
var RepoDir = "/var/tmp/repo-snap13"

// NonOverlapRules: every default rule except OverlappingFieldsCanBeMerged, in default order.
var NonOverlapRules = "FieldsOnCorrectType,FragmentsOnCompositeTypes,KnownArgumentNames,KnownDirectives,KnownFragmentNames,KnownRootType,KnownTypeNames,LoneAnonymousOperation,MaxIntrospectionDepth,NoFragmentCycles,NoUndefinedVariables,NoUnusedFragments,NoUnusedVariables,PossibleFragmentSpreads,ProvidedRequiredArguments,ScalarLeafs,SingleFieldSubscriptions,UniqueArgumentNames,UniqueDirectivesPerLocation,UniqueFragmentNames,UniqueInputFieldNames,UniqueOperationNames,UniqueVariableNames,ValuesOfCorrectType,VariablesAreInputTypes,VariablesInAllowedPosition"

// NoSuggestRules: the same list with the four `…WithoutSuggestions` variants substituted.
var NoSuggestRules = strings.NewReplacer("FieldsOnCorrectType,", "FieldsOnCorrectTypeWithoutSuggestions,", "KnownArgumentNames,", "KnownArgumentNamesWithoutSuggestions,",
	"KnownTypeNames,", "KnownTypeNamesWithoutSuggestions,", "ValuesOfCorrectType,", "ValuesOfCorrectTypeWithoutSuggestions,").Replace(NonOverlapRules)

type valTemplate struct {
	rule string
	name string
	re   *regexp.Regexp
}

// message templates of the modelled rules (one entry per format literal in validator/rules/*.go)
var valTemplates = func() []valTemplate {
	t := func(rule, name, re string) valTemplate { return valTemplate{rule, name, regexp.MustCompile("^" + re)} }
	return []valTemplate{
		t("FieldsOnCorrectType", "cannot-query-field", `Cannot query field ".*" on type ".*"\.$`),
		t("FieldsOnCorrectType", "cannot-query-field+inline-fragment-suggestion", `Cannot query field .* Did you mean to use an inline fragment on `),
		t("FieldsOnCorrectType", "cannot-query-field+field-suggestion", `Cannot query field ".*" on type ".*"\. Did you mean "`),
		t("FragmentsOnCompositeTypes", "inline-non-composite", `Fragment cannot condition on non composite type `),
		t("FragmentsOnCompositeTypes", "fragment-non-composite", `Fragment ".*" cannot condition on non composite type `),
		t("KnownArgumentNames", "unknown-field-argument", `Unknown argument ".*" on field ".*"\.$`),
		t("KnownArgumentNames", "unknown-field-argument+suggestion", `Unknown argument ".*" on field ".*"\. Did you mean`),
		t("KnownArgumentNames", "unknown-directive-argument", `Unknown argument ".*" on directive "@.*"\.$`),
		t("KnownArgumentNames", "unknown-directive-argument+suggestion", `Unknown argument ".*" on directive "@.*"\. Did you mean`),
		t("KnownDirectives", "unknown-directive", `Unknown directive "@`),
		t("KnownDirectives", "directive-misplaced", `Directive "@.*" may not be used on `),
		t("KnownFragmentNames", "unknown-fragment", `Unknown fragment "`),
		t("KnownRootType", "no-root", `Schema does not support operation type "`),
		t("KnownTypeNames", "unknown-type", `Unknown type ".*"\.$`),
		t("KnownTypeNames", "unknown-type+suggestion", `Unknown type ".*"\. Did you mean`),
		t("LoneAnonymousOperation", "lone-anonymous", `This anonymous operation must be the only defined operation\.`),
		t("MaxIntrospectionDepth", "max-depth", `Maximum introspection depth exceeded`),
		t("NoFragmentCycles", "cycle-self", `Cannot spread fragment ".*" within itself\.$`),
		t("NoFragmentCycles", "cycle-via", `Cannot spread fragment ".*" within itself via `),
		t("NoUndefinedVariables", "undefined-in-named-op", `Variable ".*" is not defined by operation "`),
		t("NoUndefinedVariables", "undefined", `Variable ".*" is not defined\.$`),
		t("NoUnusedFragments", "unused-fragment", `Fragment ".*" is never used\.`),
		t("NoUnusedVariables", "unused-in-named-op", `Variable "\$.*" is never used in operation "`),
		t("NoUnusedVariables", "unused", `Variable "\$.*" is never used\.$`),
		t("PossibleFragmentSpreads", "inline-impossible", `Fragment cannot be spread here as objects of type `),
		t("PossibleFragmentSpreads", "spread-impossible", `Fragment ".*" cannot be spread here as objects of type `),
		t("ProvidedRequiredArguments", "field-arg-missing", `Field ".*" argument ".*" of type ".*" is required, but it was not provided\.`),
		t("ProvidedRequiredArguments", "directive-arg-missing", `Directive "@.*" argument ".*" of type ".*" is required, but it was not provided\.`),
		t("ScalarLeafs", "leaf-with-selection", `Field ".*" must not have a selection since type `),
		t("ScalarLeafs", "composite-without-selection", `Field ".*" of type ".*" must have a selection of subfields\. Did you mean `),
		t("SingleFieldSubscriptions", "anonymous-multi", `Anonymous Subscription must select only one top level field\.`),
		t("SingleFieldSubscriptions", "named-multi", `Subscription ".*" must select only one top level field\.`),
		t("SingleFieldSubscriptions", "anonymous-introspection", `Anonymous Subscription must not select an introspection top level field\.`),
		t("SingleFieldSubscriptions", "named-introspection", `Subscription ".*" must not select an introspection top level field\.`),
		t("UniqueArgumentNames", "dup-argument", `There can be only one argument named "`),
		t("UniqueDirectivesPerLocation", "dup-directive", `The directive "@.*" can only be used once at this location\.`),
		t("UniqueFragmentNames", "dup-fragment", `There can be only one fragment named "`),
		t("UniqueInputFieldNames", "dup-input-field", `There can be only one input field named "`),
		t("UniqueOperationNames", "dup-operation", `There can be only one operation named "`),
		t("UniqueVariableNames", "dup-variable", `There can be only one variable named "`),
		t("ValuesOfCorrectType", "null-for-non-null", `Expected value of type ".*", found null\.`),
		t("ValuesOfCorrectType", "expected-found", `Expected value of type ".*", found .`),
		t("ValuesOfCorrectType", "int-range", `Int cannot represent non 32-bit signed integer value: `),
		t("ValuesOfCorrectType", "int-non-integer", `Int cannot represent non-integer value: `),
		t("ValuesOfCorrectType", "string", `String cannot represent a non string value: `),
		t("ValuesOfCorrectType", "boolean", `Boolean cannot represent a non boolean value: `),
		t("ValuesOfCorrectType", "float", `Float cannot represent non numeric value: `),
		t("ValuesOfCorrectType", "id", `ID cannot represent a non-string and non-integer value: `),
		t("ValuesOfCorrectType", "enum-non-enum", `Enum ".*" cannot represent non-enum value: .*\.$`),
		t("ValuesOfCorrectType", "enum-non-enum+suggestion", `Enum ".*" cannot represent non-enum value: .*\. Did you mean the enum value`),
		t("ValuesOfCorrectType", "enum-unknown-value", `Value ".*" does not exist in ".*" enum\.$`),
		t("ValuesOfCorrectType", "enum-unknown-value+suggestion", `Value ".*" does not exist in ".*" enum\. Did you mean the enum value`),
		t("ValuesOfCorrectType", "required-input-field", `Field ".*" of required type ".*" was not provided\.`),
		t("ValuesOfCorrectType", "oneof-exactly-one", `OneOf Input Object ".*" must specify exactly one key\.`),
		t("ValuesOfCorrectType", "oneof-non-null", `Field ".*" must be non-null\.`),
		t("ValuesOfCorrectType", "oneof-nullable-variable", `Variable ".*" must be non-nullable to be used for OneOf Input Object `),
		t("ValuesOfCorrectType", "unknown-input-field", `Field ".*" is not defined by type ".*"\.$`),
		t("ValuesOfCorrectType", "unknown-input-field+suggestion", `Field ".*" is not defined by type ".*"\. Did you mean`),
		t("VariablesAreInputTypes", "non-input-variable", `Variable "\$.*" cannot be non-input type `),
		t("VariablesInAllowedPosition", "bad-position", `Variable ".*" of type ".*" used in position expecting type `),
	}
}()

// ValStats accumulates what a correspondence run reached.
type ValStats struct {
	mu        sync.Mutex
	Cases     int
	Skipped   map[string]int // LOADERR / PARSEERR / TIMEOUT / CRASH
	Valid     int
	Panics    int
	Ties      int
	PerRule   map[string]int
	Templates map[string]int
	Unmatched map[string]int
	Events    int
}

func NewValStats() *ValStats {
	return &ValStats{Skipped: map[string]int{}, PerRule: map[string]int{}, Templates: map[string]int{}, Unmatched: map[string]int{}}
}

func (st *ValStats) addGo(obs string) {
	if obs == "OK" {
		st.Valid++
		return
	}
	if strings.HasPrefix(obs, "PANIC,") {
		st.Panics++
		return
	}
	for _, e := range strings.Split(obs, ";") {
		f := strings.SplitN(e, ",", 3)
		if len(f) < 2 {
			continue
		}
		rb, _ := impl.UnhexW(f[0])
		mb, _ := impl.UnhexW(f[1])
		rule := strings.TrimSuffix(string(rb), "WithoutSuggestions")
		st.PerRule[string(rb)]++
		hit := false
		for _, t := range valTemplates {
			if t.rule == rule && t.re.MatchString(string(mb)) {
				st.Templates[t.rule+"/"+t.name]++
				hit = true
			}
		}
		if !hit {
			st.Unmatched[string(rb)+": "+string(mb)]++
		}
	}
}

func (st *ValStats) Print() {
	fmt.Printf("observer calls compared: %d\n", st.Events)
	fmt.Printf("validate correspondence: cases=%d valid=%d panics=%d suggestion-order ties tolerated=%d skipped=%v\n", st.Cases, st.Valid, st.Panics, st.Ties, st.Skipped)
	rules := make([]string, 0, len(st.PerRule))
	for r := range st.PerRule {
		rules = append(rules, r)
	}
	sort.Strings(rules)
	for _, r := range rules {
		fmt.Printf("  errors reached  %-45s %d\n", r, st.PerRule[r])
	}
	var never []string
	for _, t := range valTemplates {
		if st.Templates[t.rule+"/"+t.name] == 0 {
			never = append(never, t.rule+"/"+t.name)
		}
	}
	fmt.Printf("  templates reached %d of %d; never reached: %v\n", len(valTemplates)-len(never), len(valTemplates), never)
	if len(st.Unmatched) > 0 {
		n := 0
		for m, c := range st.Unmatched {
			if n < 5 {
				fmt.Printf("  message matching no template (%d×): %s\n", c, m)
			}
			n++
		}
	}
}

var didYouMean = regexp.MustCompile(` Did you mean.*$`)

// sameUpToSuggestionOrder: the two error lists differ only in the order/choice of suggestions of
// KnownTypeNames errors (Go feeds SuggestionList from a map range and sorts unstably: R10).
func sameUpToSuggestionOrder(goObs, model string) bool {
	a, b := strings.Split(goObs, ";"), strings.Split(model, ";")
	if len(a) != len(b) {
		return false
	}
	diff := false
	for i := range a {
		if a[i] == b[i] {
			continue
		}
		fa, fb := strings.SplitN(a[i], ",", 3), strings.SplitN(b[i], ",", 3)
		if len(fa) != 3 || len(fb) != 3 || fa[0] != fb[0] || fa[2] != fb[2] {
			return false
		}
		rb, _ := impl.UnhexW(fa[0])
		if !strings.HasPrefix(string(rb), "KnownTypeNames") {
			return false
		}
		ma, _ := impl.UnhexW(fa[1])
		mb, _ := impl.UnhexW(fb[1])
		if didYouMean.ReplaceAllString(string(ma), "") != didYouMean.ReplaceAllString(string(mb), "") {
			return false
		}
		diff = true
	}
	return diff
}

// CorrValidate runs the real validator (in worker subprocesses) and the Lean model on the same
// (schema SDL, document) pairs with the given rule list and compares error lists and link dumps.
func (c *Ctx) CorrValidate(pairs [][2]string, rules string) { c.corrValidate(pairs, rules, nil) }

func (c *Ctx) corrValidate(pairs [][2]string, rules string, st *ValStats) {
	if st == nil {
		st = NewValStats()
	}
	reqs := make([]string, len(pairs))
	for i, p := range pairs {
		reqs[i] = "vall " + rules + " " + impl.HexW([]byte(p[0])) + " " + impl.HexW([]byte(p[1]))
	}
	goOut := c.Worker.Map(reqs)
	var dreqs []string
	var idx []int
	for i, o := range goOut {
		parts := strings.SplitN(o, " # ", 4)
		if len(parts) != 4 {
			key := o
			if strings.HasPrefix(o, "CRASH") {
				key = "CRASH"
				c.Report("runtime", "validate-go-crash", "real validator crashed the worker on: "+pairs[i][1], map[string]any{"op": "vall", "rules": rules, "schema": pairs[i][0], "document": pairs[i][1], "go_observation": o})
			}
			if o == "TIMEOUT" {
				c.Report("runtime", "validate-go-timeout", "real validator exceeded the worker deadline on: "+pairs[i][1], map[string]any{"op": "vall", "rules": rules, "schema": pairs[i][0], "document": pairs[i][1]})
			}
			st.mu.Lock()
			st.Skipped[key]++
			st.mu.Unlock()
			continue
		}
		dreqs = append(dreqs, "validatelinks "+rules+" "+parts[3])
		idx = append(idx, i)
	}
	model := c.Driver.Map(dreqs)
	st.mu.Lock()
	defer st.mu.Unlock()
	for k, i := range idx {
		parts := strings.SplitN(goOut[i], " # ", 4)
		mp := strings.SplitN(model[k], " # ", 3)
		st.Cases++
		c.Ev.Traces++
		c.Ev.Case(parts[0], parts[0] != "OK")
		st.addGo(parts[0])
		replay := map[string]any{"op": "validate", "rules": rules, "schema": pairs[i][0], "document": pairs[i][1], "go_observation": parts[0], "model_observation": model[k]}
		if len(mp) != 3 {
			c.Report("correspondence", "validate-model-reply", fmt.Sprintf("model reply %q on %q", trunc(model[k], 200), pairs[i][1]), replay)
			continue
		}
		if parts[0] != mp[0] {
			if sameUpToSuggestionOrder(parts[0], mp[0]) {
				st.Ties++
			} else {
				c.Report("correspondence", "validate-errors-differ:"+firstDiffRule(parts[0], mp[0]), fmt.Sprintf("validator and model disagree (rules %s) on %q:\n go    = %s\n model = %s", trunc(rules, 60), pairs[i][1], readable(parts[0]), readable(mp[0])), replay)
			}
		}
		st.Events += strings.Count(parts[2], ",") + 1
		if parts[2] != mp[2] {
			replay["go_events"] = parts[2]
			replay["model_events"] = mp[2]
			c.Report("correspondence", "validate-events-differ", fmt.Sprintf("observer call sequences differ on %q:\n go    = %s\n model = %s", pairs[i][1], trunc(parts[2], 600), trunc(mp[2], 600)), replay)
		}
		if parts[1] != mp[1] {
			replay["go_links"] = parts[1]
			replay["model_links"] = mp[1]
			c.Report("correspondence", "validate-links-differ", fmt.Sprintf("link dumps differ on %q:\n go    = %s\n model = %s", pairs[i][1], linkDiff(parts[1], mp[1]), linkDiff(mp[1], parts[1])), replay)
		}
	}
}

func trunc(s string, n int) string {
	if len(s) > n {
		return s[:n] + "…"
	}
	return s
}

// readable decodes the hex fields of an error-list observation.
func readable(obs string) string {
	if !strings.Contains(obs, ",") || strings.HasPrefix(obs, "PANIC,") {
		if strings.HasPrefix(obs, "PANIC,") {
			b, _ := hex.DecodeString(obs[6:])
			return "PANIC " + string(b)
		}
		return obs
	}
	var out []string
	for _, e := range strings.Split(obs, ";") {
		f := strings.SplitN(e, ",", 3)
		if len(f) != 3 {
			out = append(out, e)
			continue
		}
		rb, _ := impl.UnhexW(f[0])
		mb, _ := impl.UnhexW(f[1])
		out = append(out, fmt.Sprintf("[%s] %s @%s", rb, mb, f[2]))
	}
	return strings.Join(out, " | ")
}

func firstDiffRule(a, b string) string {
	x, y := strings.Split(a, ";"), strings.Split(b, ";")
	for i := 0; i < len(x) || i < len(y); i++ {
		var p, q string
		if i < len(x) {
			p = x[i]
		}
		if i < len(y) {
			q = y[i]
		}
		if p != q {
			for _, s := range []string{p, q} {
				if f := strings.SplitN(s, ",", 2); len(f) == 2 {
					rb, _ := impl.UnhexW(f[0])
					return string(rb)
				}
			}
			return "shape"
		}
	}
	return "?"
}

// linkDiff: the lines of a that are not in b.
func linkDiff(a, b string) string {
	in := map[string]bool{}
	for _, l := range strings.Split(b, ";") {
		in[l] = true
	}
	var out []string
	for _, l := range strings.Split(a, ";") {
		if !in[l] {
			out = append(out, l)
		}
	}
	return strings.Join(out, " ; ")
}

// ---------- corpora ----------

type importedSpec struct {
	Name   string `yaml:"name"`
	Rule   string `yaml:"rule"`
	Schema string `yaml:"schema"`
	Query  string `yaml:"query"`
}

// ImportedCases reads validator/imported/spec/*.yml the way validator/imported_test.go pairs them:
// `schema` is an index into schemas.yml or an inline SDL.
func ImportedCases() (cases []importedSpec, schemas []string) {
	b, err := os.ReadFile(filepath.Join(RepoDir, "validator/imported/spec/schemas.yml"))
	if err != nil {
		return nil, nil
	}
	yaml.Unmarshal(b, &schemas)
	files, _ := filepath.Glob(filepath.Join(RepoDir, "validator/imported/spec/*.spec.yml"))
	sort.Strings(files)
	for _, f := range files {
		fb, _ := os.ReadFile(f)
		var specs []importedSpec
		if yaml.Unmarshal(fb, &specs) != nil {
			continue
		}
		for _, s := range specs {
			if idx, err := strconv.Atoi(s.Schema); err == nil {
				if idx < 0 || idx >= len(schemas) {
					continue
				}
				s.Schema = schemas[idx]
			}
			cases = append(cases, s)
		}
	}
	return
}

// ExtraSchema exercises what the imported schemas lack: @oneOf inputs, custom scalars, repeatable
// directives, interfaces implementing interfaces, subscriptions, default values, nested lists.
const ExtraSchema = `
schema { query: Query mutation: Mutation subscription: Subscription }
directive @rep(x: Int) repeatable on FIELD | QUERY | FRAGMENT_SPREAD | INLINE_FRAGMENT | FRAGMENT_DEFINITION | VARIABLE_DEFINITION
directive @once(x: Int!, y: String = "d") on FIELD | MUTATION | SUBSCRIPTION
directive @oneOf on INPUT_OBJECT
scalar Date
enum Color { RED GREEN BLUE red }
input One @oneOf { a: String b: Int c: In }
input In { req: Int! opt: String = "x" l: [Int] ll: [[Int!]] col: Color nested: In one: One date: Date reqd: Int! = 5 }
interface Node { id: ID! }
interface Named implements Node { id: ID! name: String }
type User implements Named & Node { id: ID! name: String friends(first: Int = 3, after: ID): [User!]! color: Color pet: Pet }
type Dog implements Node { id: ID! barks: Boolean name: String owner: User }
type Cat { id: ID! meows: Boolean name: String }
union Pet = Dog | Cat
type Query {
  node(id: ID!): Node
  user(id: ID!, in: In, one: One, color: Color = RED): User
  users(ids: [ID!]!, ins: [In!]): [User]
  search(q: String!, f: Float, b: Boolean, d: Date, l: [String], ll: [[Int]]): [Pet!]
  scalarArg(x: Int!, y: Int! = 5, z: Int): Int
  me: Named
}
type Mutation { setColor(c: Color!, one: One!): Color touch(d: Date!): Date }
type Subscription { newUser: User tick(every: Int): Int }
`

var extraSeeds = []string{
	`query Q($id: ID!, $in: In, $c: Color = RED) { user(id: $id, in: $in, color: $c) { id name friends(first: 2) { ...UF } pet { ... on Dog { barks } ... on Cat { meows } __typename } } }
fragment UF on User { id name color }`,
	`query ($v: String, $w: String!, $n: Int = 1) { a: user(id: 1, one: {a: $v}) { id } b: user(id: "2", one: {a: $w}) { id } c: user(id: 3, one: {b: $n}) { id } d: user(id: 4, one: {a: null}) { id } e: user(id: 5, one: {a: "x", b: 1}) { id } }`,
	`{ user(id: 1, in: {req: 1, l: [1, 2], ll: [[1], [2, 3]], col: RED, nested: {req: 2, one: {a: "s"}}, date: {any: [1, "x"]}}) { id @rep(x: 1) @rep(x: 2) name @once(x: 1) } }`,
	`mutation M($c: Color!, $o: One!) @once(x: 1) { setColor(c: $c, one: $o) touch(d: "2020-01-01") }`,
	`subscription S { newUser { id } tick(every: 5) }`,
	`subscription { ...SF __typename } fragment SF on Subscription { newUser { id } t: tick }`,
	`{ node(id: 1) { id ... on Named { name } ... on User { friends { id } } ...N } me { id name ... on Dog { barks } } }
fragment N on Node { id ...M } fragment M on Named { name ...N }`,
	`{ __schema { types { name fields { name type { name ofType { name fields { name } } } } } } __type(name: "User") { name possibleTypes { name interfaces { name } } } }`,
	`{ __schema { ...S1 } } fragment S1 on __Schema { types { ...T1 } } fragment T1 on __Type { fields { type { ...T2 } } } fragment T2 on __Type { interfaces { possibleTypes { name } } ...T1 }`,
	`query A($ids: [ID!]!, $ins: [In!], $f: Float = 1.5, $b: Boolean = true, $l: [String] = ["a"]) { users(ids: $ids, ins: $ins) { id } search(q: "x", f: $f, b: $b, l: $l, ll: [[1, 2], null]) { ... on Dog { name } } scalarArg(x: 1) }
query B { scalarArg(x: 2147483648, y: 1.5, z: "3") search(q: 1, f: "f", b: 1, d: 1e999) { __typename } }`,
	`query V($a: Int, $b: Int! = 3, $c: [Int], $d: Int = 4) { s1: scalarArg(x: $a) s2: scalarArg(x: $b, y: $d) s3: scalarArg(x: $c) ...VF }
fragment VF on Query { scalarArg(x: $d, z: $undefined) user(id: 1, one: {b: $a}) { id } }`,
	`query ($v: String!) { me { id } } fragment Unused on Query { user(id: 1, one: {a: $v}) { id } }`,
	// stale VariableDefinition links: the fragment is walked under A, under B and stand-alone
	`query A($v: String) { ...F } query B($v: String!) { ...F } fragment F on Query { user(id: 1, one: {a: $v}) { id } }`,
	`query A($v: String!) { ...F } query B($v: String) { ...F } fragment F on Query { user(id: 1, one: {a: $v}) { id } }`,
	`query A($v: Int = 99999999999999999999) { ...F } query B { me { id } } fragment F on Query { scalarArg(x: $v) l: scalarArg(x: [$v]) users(ids: [$v]) { id } }`,
	// spread links not yet written when an enclosing field is checked
	`{ ...G } fragment G on Query { __schema { ...G } ...H } fragment H on Query { __schema { types { fields { type { fields { type { fields { name } } } } } } } }`,
	`subscription { ...A ...B } fragment A on Subscription { newUser { id } ...Missing tick } fragment B on Subscription { ... { tick ...Missing newUser { id } } t2: tick }`,
	`query ($v: Int = 1e999, $w: Float = 1e999, $x: [Int] = [1, 99999999999999999999]) { scalarArg(x: $v) search(q: "a", f: $w, ll: [$x]) { __typename } }`,
	// the repaired branches of ValuesOfCorrectType: Int is 32 bits, Float is finite, ID / Float take any integer,
	// an object literal where a scalar or an enum is expected, the @oneOf null message names the key written
	`{ a: scalarArg(x: 2147483647, y: -2147483648, z: 2147483648) b: scalarArg(x: -2147483649, z: 9223372036854775808) c: scalarArg(x: 99999999999999999999, z: -99999999999999999999) ll: search(q: "a", ll: [[2147483648, 1], [99999999999999999999]]) { __typename } }`,
	`{ a: search(q: "a", f: 1e308) { __typename } b: search(q: "a", f: 1e309) { __typename } c: search(q: "a", f: -1.7976931348623159e308) { __typename } d: search(q: "a", f: 1.7976931348623157e308) { __typename } e: search(q: "a", f: 99999999999999999999) { __typename } f: search(q: "a", f: 4.9e-400) { __typename } g: search(q: "a", f: 0e999) { __typename } }`,
	`{ a: node(id: 99999999999999999999) { id } b: node(id: 1e999) { id } c: user(id: 9223372036854775808, in: {req: 2147483648, l: [99999999999999999999], date: 1e999, reqd: 1e999}) { id } d: search(q: "a", d: 99999999999999999999) { __typename } e: search(q: "a", d: [1e999, {k: -1e999}]) { __typename } }`,
	`{ a: scalarArg(x: {a: 1}) b: user(id: {a: 1}, color: {RED: 1}) { id } c: search(q: {a: "x"}, f: {}, b: {b: true}, l: {a: 1}, ll: [{a: 1}, [{}]]) { __typename } d: user(id: 1, in: {req: {a: 1}, col: {a: RED}, opt: {}, date: {ok: 1}}) { id } }`,
	`{ a: user(id: 1, one: {b: null}) { id } b: user(id: 2, one: {c: null}) { id } c: user(id: 3, one: {zzz: null}) { id } d: user(id: 4, one: {}) { id } e: user(id: 5, one: {a: null, b: null}) { id } f: user(id: 6, in: {req: 1, one: {c: null}}) { id } }`,
	`mutation ($n: Int = 2147483648, $f: Float = 1e999, $i: ID = 99999999999999999999, $o: One = {c: null}, $c: Color = {a: 1}) { setColor(c: $c, one: $o) touch(d: 1e999) }`,
}

// ValidateSeedPairs: (schema SDL, document) pairs from the repository's own cases plus the extra schema.
func ValidateSeedPairs() (pairs [][2]string, single []struct {
	Pair [2]string
	Rule string
}) {
	cases, _ := ImportedCases()
	seen := map[string]bool{}
	for _, s := range cases {
		p := [2]string{s.Schema, s.Query}
		single = append(single, struct {
			Pair [2]string
			Rule string
		}{p, s.Rule})
		if !seen[p[0]+"\x00"+p[1]] {
			seen[p[0]+"\x00"+p[1]] = true
			pairs = append(pairs, p)
		}
	}
	// (b) validator/testdata schemas with the formatter's query documents and hand-written ones
	td, _ := filepath.Glob(filepath.Join(RepoDir, "validator/testdata/*.graphql"))
	sort.Strings(td)
	qs, _ := filepath.Glob(filepath.Join(RepoDir, "formatter/testdata/source/query/*.graphql"))
	sort.Strings(qs)
	var qtexts []string
	for _, q := range qs {
		b, _ := os.ReadFile(q)
		qtexts = append(qtexts, string(b))
	}
	qtexts = append(qtexts,
		`{ hero { name friends { name ...F } } } fragment F on Character { id appearsIn }`,
		`query Q($ep: Episode = JEDI, $id: ID!) { hero(episode: $ep) { id name } human(id: $id) { name starships { name length(unit: FOOT) } } droid(id: "2000") { primaryFunction } }`,
		`mutation { createReview(episode: JEDI, review: {stars: 5, commentary: "x"}) { stars commentary } }`,
		`subscription { reviewAdded(episode: EMPIRE) { stars } }`,
		`{ search(text: "x") { __typename ... on Human { height(unit: METER) } ... on Starship { length } } }`)
	for _, f := range td {
		b, _ := os.ReadFile(f)
		for _, q := range qtexts {
			pairs = append(pairs, [2]string{string(b), q})
		}
	}
	for _, q := range extraSeeds {
		pairs = append(pairs, [2]string{ExtraSchema, q})
	}
	return
}

func init() {
	Checks["X-validate"] = func(c *Ctx) {
		target := c.Pick(200000, 1000000)
		if v := os.Getenv("VERIF_VALIDATE_MUTATIONS"); v != "" {
			target, _ = strconv.Atoi(v)
		}
		c.validateSuite(target)
	}
}

// validateSuite: the validator / Lean-model correspondence (imported cases, seed pairs, `target`
// mutations, random rule subsets and orders).
func (c *Ctx) validateSuite(target int) {
	{
		st := NewValStats()
		pairs, single := ValidateSeedPairs()
		// (a) every imported case with its own rule (when the rule exists in package rules) …
		byRule := map[string][][2]string{}
		for _, s := range single {
			if _, ok := impl.RuleByName[s.Rule]; ok && s.Rule != "OverlappingFieldsCanBeMerged" {
				byRule[s.Rule] = append(byRule[s.Rule], s.Pair)
			}
		}
		rs := make([]string, 0, len(byRule))
		for r := range byRule {
			rs = append(rs, r)
		}
		sort.Strings(rs)
		for _, r := range rs {
			c.corrValidate(byRule[r], r, st)
		}
		fmt.Printf("imported single-rule runs: %d cases over %d rules\n", st.Cases, len(rs))
		// … and every seed pair with the full rule set (minus OverlappingFieldsCanBeMerged), both flavours
		c.corrValidate(pairs, NonOverlapRules, st)
		c.corrValidate(pairs, NoSuggestRules, st)
		fmt.Printf("seed pairs: %d\n", len(pairs))

		// (c) mutations
		type seed struct {
			schema string
			pool   *NamePool
			docs   []string
		}
		var seeds []*seed
		bySchema := map[string]*seed{}
		for _, p := range pairs {
			sd, ok := bySchema[p[0]]
			if !ok {
				sch, err := impl.LoadSchema(p[0])
				if err != nil {
					continue
				}
				sd = &seed{schema: p[0], pool: PoolOfSchema(sch)}
				bySchema[p[0]] = sd
				seeds = append(seeds, sd)
			}
			sd.docs = append(sd.docs, p[1])
		}
		done := 0
		sizes := map[int]int{}
		for done < target {
			var batch [][2]string
			for len(batch) < 20000 && done+len(batch) < target {
				sd := seeds[c.R.Intn(len(seeds))]
				if c.R.Chance(1, 3) {
					sd = bySchema[ExtraSchema]
				}
				doc := sd.docs[c.R.Intn(len(sd.docs))]
				out, ok := MutateDoc(c.R, doc, sd.pool, 1+c.R.Intn(4))
				if !ok || len(out) > 2500 {
					continue
				}
				// grow the corpus slowly with mutants so that mutations compound
				if c.R.Chance(1, 50) && len(sd.docs) < 4000 {
					sd.docs = append(sd.docs, out)
				}
				sizes[len(out)/250]++
				batch = append(batch, [2]string{sd.schema, out})
			}
			rules := NonOverlapRules
			if c.R.Chance(1, 4) {
				rules = NoSuggestRules
			}
			c.corrValidate(batch, rules, st)
			done += len(batch)
		}
		fmt.Printf("mutations: %d (document size histogram, 250-byte buckets: %v)\n", done, sizes)

		// (d) rule subsets and orders (C18 on both sides): random sub-lists / permutations of all 30
		// modelled rule names on fresh mutants
		allNames := append(strings.Split(NonOverlapRules, ","), "FieldsOnCorrectTypeWithoutSuggestions", "KnownArgumentNamesWithoutSuggestions", "KnownTypeNamesWithoutSuggestions", "ValuesOfCorrectTypeWithoutSuggestions")
		subsetRuns := c.Pick(40, 200)
		for k := 0; k < subsetRuns; k++ {
			perm := append([]string{}, allNames...)
			for i := len(perm) - 1; i > 0; i-- {
				j := c.R.Intn(i + 1)
				perm[i], perm[j] = perm[j], perm[i]
			}
			n := 1 + c.R.Intn(len(perm))
			if k%4 == 0 {
				n = 1
			}
			var batch [][2]string
			for len(batch) < 500 {
				sd := seeds[c.R.Intn(len(seeds))]
				doc := sd.docs[c.R.Intn(len(sd.docs))]
				out, ok := MutateDoc(c.R, doc, sd.pool, c.R.Intn(3))
				if !ok || len(out) > 2500 {
					continue
				}
				batch = append(batch, [2]string{sd.schema, out})
			}
			c.corrValidate(batch, strings.Join(perm[:n], ","), st)
		}
		fmt.Printf("rule subset/order runs: %d × 500 pairs\n", subsetRuns)
		st.Print()
		c.Ev.Extra["validate_per_rule_errors"] = st.PerRule
		c.Ev.Extra["validate_templates_reached"] = st.Templates
	}
}
