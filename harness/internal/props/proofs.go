package props

import (
	"bytes"
	"encoding/json"
	"fmt"
	"os"
	"os/exec"
	"path/filepath"
	"regexp"
	"strings"

	"verifharness/internal/ev"
)

var LeanDir = filepath.Join(Root, "lean")

var theoremRe = regexp.MustCompile(`(?m)^theorem\s+(C\d\d_[A-Za-z0-9_']+)`)
var allowedAxioms = map[string]bool{"propext": true, "Classical.choice": true, "Quot.sound": true}
var forbiddenRe = regexp.MustCompile(`\bsorry\b|\badmit\b|^\s*axiom\s|native_decide|bv_decide|implemented_by|\bunsafe\s|maxHeartbeats\s+0\b`)

func run(dir string, name string, args ...string) (string, error) {
	cmd := exec.Command(name, args...)
	cmd.Dir = dir
	var buf bytes.Buffer
	cmd.Stdout = &buf
	cmd.Stderr = &buf
	err := cmd.Run()
	return buf.String(), err
}

// stripComments removes `--` line comments and `/- -/` block comments (good enough for the audit grep).
func stripComments(s string) string {
	var out strings.Builder
	depth := 0
	for i := 0; i < len(s); i++ {
		if i+1 < len(s) && s[i] == '/' && s[i+1] == '-' {
			depth++
			i++
			continue
		}
		if depth > 0 && i+1 < len(s) && s[i] == '-' && s[i+1] == '/' {
			depth--
			i++
			continue
		}
		if depth > 0 {
			if s[i] == '\n' {
				out.WriteByte('\n')
			}
			continue
		}
		if i+1 < len(s) && s[i] == '-' && s[i+1] == '-' {
			for i < len(s) && s[i] != '\n' {
				i++
			}
			out.WriteByte('\n')
			continue
		}
		out.WriteByte(s[i])
	}
	return out.String()
}

func forbiddenTokens() []string {
	var hits []string
	for _, sub := range []string{"GqlModel", "GqlProofs"} {
		filepath.Walk(filepath.Join(LeanDir, sub), func(p string, info os.FileInfo, err error) error {
			if err != nil || info.IsDir() || !strings.HasSuffix(p, ".lean") {
				return nil
			}
			b, _ := os.ReadFile(p)
			for i, line := range strings.Split(stripComments(string(b)), "\n") {
				if forbiddenRe.MatchString(line) {
					hits = append(hits, fmt.Sprintf("%s:%d: %s", p, i+1, strings.TrimSpace(line)))
				}
			}
			return nil
		})
	}
	return hits
}

// RunProofs regenerates the source-derived facts, rebuilds the model, the property's theorems
// and the driver, audits axioms, and files broken obligations (DESIGN §5 step 1).
func (c *Ctx) RunProofs() {
	pr := &ev.Proof{
		CheckerCmd: fmt.Sprintf("cd %s && lake build GqlProofs.Props.%s driver && lake env lean .lake/audit/%s.lean  (#print axioms of every theorem)", LeanDir, c.Prop, c.Prop),
		Trusted: []string{
			"Lean 4.33.0 kernel + elaborator, lake",
			"axioms allowed: propext, Classical.choice, Quot.sound (audited per theorem by #print axioms; no native_decide, bv_decide, sorry, user axioms)",
			"hand-written Lean model tied to /repo by the differential correspondence run of this check and by the facts regenerated from source (extract → GqlModel/Gen)",
			"Go harness: canonical observation printers, generators, driver/worker pools",
		},
	}
	c.Proof = pr
	if msg := c.RunExtract(); msg != "" {
		pr.Failed = append(pr.Failed, "extract: "+msg)
		c.ReportNoInput("theorem", "extract-failed", msg, map[string]any{"theorem": "extractor (regenerated facts)"})
	}
	src, err := os.ReadFile(filepath.Join(LeanDir, "GqlProofs/Props", c.Prop+".lean"))
	if err != nil {
		pr.Failed = append(pr.Failed, "no Props file")
		c.ReportNoInput("theorem", "no-props-file", err.Error(), nil)
		return
	}
	var names []string
	for _, m := range theoremRe.FindAllStringSubmatch(stripComments(string(src)), -1) {
		names = append(names, m[1])
	}
	pr.Obligations = len(names)
	out, err := run(LeanDir, "lake", "build", "GqlProofs.Props."+c.Prop, "driver")
	if err != nil {
		// a broken model / proof / generated-fact lemma: every obligation of this property is open
		lines := []string{}
		for _, l := range strings.Split(out, "\n") {
			if strings.Contains(l, "error") {
				lines = append(lines, l)
			}
		}
		if len(lines) > 20 {
			lines = lines[:20]
		}
		pr.Failed = append(pr.Failed, lines...)
		c.ReportNoInput("theorem", "lake-build-failed", "lake build GqlProofs.Props."+c.Prop+" failed: "+strings.Join(lines, " | "),
			map[string]any{"theorem": "GqlProofs.Props." + c.Prop, "build_errors": lines})
		return
	}
	if hits := forbiddenTokens(); len(hits) > 0 {
		pr.Failed = append(pr.Failed, hits...)
		c.ReportNoInput("theorem", "forbidden-token", strings.Join(hits, " | "), map[string]any{"theorem": "source audit", "hits": hits})
		return
	}
	auditDir := filepath.Join(LeanDir, ".lake", "audit")
	os.MkdirAll(auditDir, 0o755)
	var sb strings.Builder
	fmt.Fprintf(&sb, "import GqlProofs.Props.%s\n", c.Prop)
	for _, n := range names {
		fmt.Fprintf(&sb, "#print axioms %s\n", n)
	}
	auditFile := filepath.Join(auditDir, c.Prop+".lean")
	os.WriteFile(auditFile, []byte(sb.String()), 0o644)
	aout, aerr := run(LeanDir, "lake", "env", "lean", auditFile)
	axRe := regexp.MustCompile(`'([^']+)' depends on axioms: \[([^\]]*)\]`)
	noRe := regexp.MustCompile(`'([^']+)' does not depend on any axioms`)
	flat := strings.ReplaceAll(aout, "\n", " ")
	seen := map[string][]string{}
	for _, m := range axRe.FindAllStringSubmatch(flat, -1) {
		ax := []string{}
		for _, a := range strings.Split(m[2], ",") {
			if a = strings.TrimSpace(a); a != "" {
				ax = append(ax, a)
			}
		}
		seen[m[1]] = ax
	}
	for _, m := range noRe.FindAllStringSubmatch(flat, -1) {
		seen[m[1]] = []string{}
	}
	for _, n := range names {
		ax, ok := seen[n]
		entry := map[string]any{"name": n, "axioms": ax}
		good := ok && aerr == nil
		for _, a := range ax {
			if !allowedAxioms[a] {
				good = false
			}
		}
		if good {
			pr.Discharged++
		} else {
			pr.Failed = append(pr.Failed, n)
			entry["failed"] = true
			c.ReportNoInput("theorem", "obligation:"+n, fmt.Sprintf("theorem %s not accepted (axioms %v, audit error %v)", n, ax, aerr),
				map[string]any{"theorem": n, "axioms": ax})
		}
		pr.Theorems = append(pr.Theorems, entry)
	}
	if c.Thorough() {
		lout, lerr := run(LeanDir, "lake", "env", "leanchecker", "GqlProofs.Props."+c.Prop)
		if strings.Contains(lout, "found a problem") || strings.Contains(lout, "uncaught exception") {
			lerr = fmt.Errorf("leanchecker reported a problem")
		}
		c.Ev.Extra["leanchecker"] = map[string]any{"ok": lerr == nil, "tail": tailStr(lout, 300)}
		if lerr != nil {
			c.ReportNoInput("theorem", "leanchecker", "leanchecker rejected GqlProofs.Props."+c.Prop+": "+tailStr(lout, 300), map[string]any{"theorem": "leanchecker"})
		}
	}
}

func tailStr(s string, n int) string {
	if len(s) > n {
		return s[len(s)-n:]
	}
	return s
}

// Replay re-runs the case stored in a replay file against the current tree.
func Replay(prop, path string) int {
	b, err := os.ReadFile(path)
	if err != nil {
		fmt.Fprintln(os.Stderr, err)
		return 2
	}
	var rep map[string]any
	if err := json.Unmarshal(b, &rep); err != nil {
		fmt.Fprintln(os.Stderr, err)
		return 2
	}
	if prop == "" {
		prop, _ = rep["property"].(string)
	}
	f, ok := Replayers[prop]
	if !ok {
		fmt.Fprintln(os.Stderr, "no replayer for", prop)
		return 2
	}
	c := NewCtx(prop, "quick", 0)
	c.Proof = nil
	f(c, rep)
	code := 0
	for _, s := range c.violOrder {
		v := c.viol[s]
		fmt.Printf("VIOLATION property=%s replay=%s\n  %s: %s\n", prop, path, v.Sig, v.What)
		code = 1
	}
	for s, n := range c.known {
		fmt.Printf("KNOWN-FINDING: property=%s sig=%s (%d)\n", prop, s, n)
	}
	if code == 0 {
		fmt.Println("replay: no violation on the current tree")
	}
	return code
}

var Replayers = map[string]func(c *Ctx, rep map[string]any){}
