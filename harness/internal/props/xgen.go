package props

import (
	"fmt"
	"os"
	"sort"
	"strconv"
	"strings"
	"time"

	"verifharness/internal/gen"
	"verifharness/internal/impl"
	"verifharness/internal/rng"
)

// X-gen: self-test of the generators of internal/gen against the real library (run in worker
// subprocesses: validation of random documents can crash or hang the process, DESIGN §7 R2d).
// It measures and prints; it is a scratch check (no theorem, no verdict beyond "ran").
//
// Environment: XGEN_SCHEMAS (default 5000), XGEN_DOCS (documents per kind, default 50000),
// XGEN_VERBOSE=1 prints one example per failure class.

func envInt(name string, def int) int {
	if v := os.Getenv(name); v != "" {
		if n, err := strconv.Atoi(v); err == nil {
			return n
		}
	}
	return def
}

func unhexMsg(h string) string {
	b, _ := impl.UnhexW(h)
	return string(b)
}

// classify turns a message into a class by dropping quoted names and numbers.
func classify(msg string) string {
	var sb strings.Builder
	inq := false
	for i := 0; i < len(msg); i++ {
		c := msg[i]
		if c == '"' {
			inq = !inq
			if inq {
				sb.WriteString(`"…"`)
			}
			continue
		}
		if inq {
			continue
		}
		if c >= '0' && c <= '9' {
			if sb.Len() == 0 || sb.String()[sb.Len()-1] != '#' {
				sb.WriteByte('#')
			}
			continue
		}
		sb.WriteByte(c)
	}
	s := sb.String()
	if len(s) > 110 {
		s = s[:110]
	}
	return s
}

type tally struct {
	n     map[string]int
	first map[string]string
}

func newTally() *tally { return &tally{n: map[string]int{}, first: map[string]string{}} }
func (t *tally) add(k, example string) {
	if t.n[k] == 0 {
		t.first[k] = example
	}
	t.n[k]++
}
func (t *tally) print(title string, total int, examples bool) {
	keys := make([]string, 0, len(t.n))
	for k := range t.n {
		keys = append(keys, k)
	}
	sort.Slice(keys, func(i, j int) bool {
		if t.n[keys[i]] != t.n[keys[j]] {
			return t.n[keys[i]] > t.n[keys[j]]
		}
		return keys[i] < keys[j]
	})
	fmt.Printf("--- %s (%d classes)\n", title, len(keys))
	for _, k := range keys {
		if total > 0 {
			fmt.Printf("  %7d  %6.2f%%  %s\n", t.n[k], 100*float64(t.n[k])/float64(total), k)
		} else {
			fmt.Printf("  %7d  %s\n", t.n[k], k)
		}
		if examples && t.first[k] != "" {
			fmt.Printf("           e.g. %s\n", strings.ReplaceAll(t.first[k], "\n", "\n                "))
		}
	}
}

func hexSources(srcs []string) string { return impl.HexW([]byte(strings.Join(srcs, "\x1e"))) }

func init() {
	Checks["X-gen"] = func(c *Ctx) {
		verbose := os.Getenv("XGEN_VERBOSE") != ""
		nSchemas := envInt("XGEN_SCHEMAS", 5000)
		nDocs := envInt("XGEN_DOCS", 50000)
		r := rng.New(c.Seed)
		xgenSchemas(c, r, nSchemas, verbose)
		xgenDocs(c, r, nSchemas, nDocs, verbose)
	}
}

// the message the loader is expected to give for each clause (a substring)
var clauseMessage = map[string][]string{
	"duplicate-type-name":                       {"Cannot redeclare type"},
	"duplicate-directive-name":                  {"Cannot redeclare directive"},
	"duplicate-field-name":                      {"can only be defined once"},
	"undefined-type:field":                      {"Undefined type"},
	"undefined-type:argument":                   {"Undefined type"},
	"undefined-type:input-field":                {"Undefined type"},
	"undefined-type:union-member":               {"Undefined type"},
	"undefined-type:interface":                  {"Undefined type"},
	"undefined-type:root":                       {"that does not exist"},
	"wrong-kind:root-not-object":                {"must be an object type"},
	"wrong-kind:union-member-not-object":        {"must be OBJECT"},
	"wrong-kind:implements-non-interface":       {"is a non interface type"},
	"wrong-kind:input-type-in-output-position":  {"field must be one of SCALAR, OBJECT"},
	"wrong-kind:output-type-in-input-position":  {"field must be one of SCALAR, ENUM, INPUT_OBJECT", "is not a valid input type"},
	"wrong-kind:directive-argument-output-type": {"is not a valid input type"},
	"interface-field-missing":                   {"it must have a field called"},
	"interface-field-not-covariant":             {"must have type"},
	"interface-argument-missing":                {"but it is missing"},
	"interface-argument-type-differs":           {"has the wrong type"},
	"interface-additional-required-argument":    {"must be optional or have a default value"},
	"transitive-interface-not-implemented":      {"because it is implemented by"},
	"empty-object":                              {"must define one or more fields"},
	"empty-interface":                           {"must define one or more fields"},
	"empty-input":                               {"must define one or more input fields"},
	"empty-enum":                                {"must define one or more unique enum values"},
	"reserved-name:type":                        {"must not begin with"},
	"reserved-name:field":                       {"must not begin with"},
	"reserved-name:argument":                    {"must not begin with"},
	"reserved-name:input-field":                 {"must not begin with"},
	"reserved-name:enum-value":                  {"must not begin with"},
	"reserved-name:directive":                   {"must not begin with"},
	"directive-undeclared-location":             {"is not applicable on"},
	"directive-missing-required-argument":       {"cannot be null"},
	"directive-undefined":                       {"Undefined directive"},
}

func xgenSchemas(c *Ctx, r *rng.R, n int, verbose bool) {
	t0 := time.Now()
	schemas := make([]*gen.Schema, n)
	sizes := newTally()
	feats := newTally()
	for i := range schemas {
		size := r.Intn(16)
		schemas[i] = gen.GenSchema(r.Fork(uint64(i)), size)
		sizes.add(fmt.Sprintf("types=%02d-%02d", len(schemas[i].Types)/5*5, len(schemas[i].Types)/5*5+4), "")
		for _, f := range schemas[i].FeatureList() {
			feats.add(f, "")
		}
	}
	genTime := time.Since(t0)
	// 1. plain load, 2. permuted + split load
	var reqs []string
	for _, s := range schemas {
		reqs = append(reqs, "genload "+impl.HexW([]byte(s.SDL())))
	}
	for i, s := range schemas {
		srcs := s.Render(r.Fork(uint64(i)^0x77), 1+r.Intn(5))
		hs := make([]string, len(srcs))
		for k, x := range srcs {
			hs[k] = impl.HexW([]byte(x))
		}
		reqs = append(reqs, "genload "+strings.Join(hs, " "))
	}
	out := c.Worker.Map(reqs)
	fails := newTally()
	okPlain, okPerm := 0, 0
	for i, o := range out {
		s := schemas[i%n]
		if o == "OK" {
			if i < n {
				okPlain++
			} else {
				okPerm++
			}
			continue
		}
		msg := o
		if strings.HasPrefix(o, "E:") {
			msg = unhexMsg(o[2:])
		}
		kind := "plain"
		if i >= n {
			kind = "permuted"
		}
		fails.add(kind+": "+classify(msg), msg+"\n"+s.SDL())
	}
	fmt.Printf("=== schemas: %d generated in %v (%.0f/s)\n", n, genTime, float64(n)/genTime.Seconds())
	fmt.Printf("loaded: plain %d/%d (%.2f%%), permuted+split %d/%d (%.2f%%)\n", okPlain, n, 100*float64(okPlain)/float64(n), okPerm, n, 100*float64(okPerm)/float64(n))
	fails.print("schema load failure classes", n, verbose)
	sizes.print("schema sizes", n, false)
	feats.print("schema features (fraction of schemas)", n, false)

	// fault injection
	perClause := map[string][3]int{} // total, rejected, rejected with the message of the clause
	otherMsg := newTally()
	var freqs []string
	var faults []gen.SchemaFault
	for i, s := range schemas {
		if out[i] != "OK" {
			continue // faults are injected into schemas the library loads (else the base failure masks them)
		}
		for k := 0; k < 3; k++ {
			f := gen.InjectSchemaFault(r.Fork(uint64(i*7+k)), s)
			faults = append(faults, f)
			hs := make([]string, len(f.Sources))
			for j, x := range f.Sources {
				hs[j] = impl.HexW([]byte(x))
			}
			freqs = append(freqs, "genload "+strings.Join(hs, " "))
		}
	}
	fout := c.Worker.Map(freqs)
	accepted := newTally()
	msgs := map[string]*tally{}
	for i, o := range fout {
		f := faults[i]
		key := f.Clause
		st := perClause[key]
		st[0]++
		if o != "OK" {
			st[1]++
			if msgs[key] == nil {
				msgs[key] = newTally()
			}
			m := unhexMsg(strings.TrimPrefix(o, "E:"))
			if !strings.HasPrefix(o, "E:") {
				m = "worker reply " + o[:min(len(o), 60)]
			}
			msgs[key].add(classify(m), "")
			hit := false
			for _, want := range clauseMessage[key] {
				hit = hit || strings.Contains(m, want)
			}
			if hit {
				st[2]++
			} else {
				otherMsg.add(key+" / "+f.Variant+": "+classify(m), m+"\n"+strings.Join(f.Sources, "\n---\n"))
			}
		} else {
			accepted.add(f.Clause+" / "+f.Variant, strings.Join(f.Sources, "\n---\n"))
		}
		perClause[key] = st
	}
	fmt.Printf("=== schema faults: %d injected\n", len(faults))
	for _, cl := range gen.SchemaClauses {
		st := perClause[cl]
		top := ""
		if m := msgs[cl]; m != nil {
			best := ""
			for k := range m.n {
				if best == "" || m.n[k] > m.n[best] {
					best = k
				}
			}
			top = fmt.Sprintf("%s (%d)", best, m.n[best])
			if len(m.n) > 1 {
				top += fmt.Sprintf(" +%d other message classes", len(m.n)-1)
			}
		}
		rate, rate2 := 0.0, 0.0
		if st[0] > 0 {
			rate = 100 * float64(st[1]) / float64(st[0])
			rate2 = 100 * float64(st[2]) / float64(st[0])
		}
		if len(top) > 70 {
			top = top[:70]
		}
		fmt.Printf("  %-46s injected %6d rejected %6.2f%% with-the-clause's-message %6.2f%%  %s\n", cl, st[0], rate, rate2, top)
	}
	otherMsg.print("injected schema faults rejected with ANOTHER message (clause / variant: message)", 0, verbose)
	accepted.print("injected schema faults that LOAD (clause / variant)", 0, true)
}
