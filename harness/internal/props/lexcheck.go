package props

import (
	"bytes"
	"fmt"
	"strconv"
	"strings"
	"unicode/utf8"

	"verifharness/internal/impl"
)

// ObsTok is one token of a `lex`/`lexspec` observation.
type ObsTok struct {
	Kind, Start, End, Line, Col int
	Value                       string // hex
}

type LexObs struct {
	Toks   []ObsTok
	Status string // OK | E | FUEL | PANIC | NOTUTF8
	ELine  int
	ECol   int
	EMsg   string
	Raw    string
}

func ParseLexObs(s string) LexObs {
	o := LexObs{Raw: s}
	if strings.HasPrefix(s, "PANIC") || s == "NOTUTF8" || strings.HasPrefix(s, "CRASH") || s == "TIMEOUT" {
		o.Status = strings.SplitN(s, ":", 2)[0]
		return o
	}
	i := strings.LastIndexByte(s, '|')
	if i < 0 {
		o.Status = "BAD"
		return o
	}
	tail := s[i+1:]
	if body := s[:i]; body != "" {
		for _, t := range strings.Split(body, ";") {
			f := strings.Split(t, ",")
			if len(f) != 6 {
				o.Status = "BAD"
				return o
			}
			var k ObsTok
			k.Kind, _ = strconv.Atoi(f[0])
			k.Start, _ = strconv.Atoi(f[1])
			k.End, _ = strconv.Atoi(f[2])
			k.Line, _ = strconv.Atoi(f[3])
			k.Col, _ = strconv.Atoi(f[4])
			k.Value = f[5]
			o.Toks = append(o.Toks, k)
		}
	}
	switch {
	case tail == "OK" || tail == "FUEL":
		o.Status = tail
	case strings.HasPrefix(tail, "E"):
		o.Status = "E"
		f := strings.Split(tail, ",")
		if len(f) == 4 {
			o.ELine, _ = strconv.Atoi(f[1])
			o.ECol, _ = strconv.Atoi(f[2])
			o.EMsg = f[3]
		}
	default:
		o.Status = "BAD"
	}
	return o
}

// lineTable returns, for a valid-or-not UTF-8 text, the rune length of every line
// (terminators LF, CR, CRLF; the last line may be empty).
func lineTable(in []byte) []int {
	var lens []int
	cur := 0
	for i := 0; i < len(in); {
		r, w := utf8.DecodeRune(in[i:])
		i += w
		if r == '\n' {
			lens = append(lens, cur)
			cur = 0
		} else if r == '\r' {
			if i < len(in) && in[i] == '\n' {
				i++
			}
			lens = append(lens, cur)
			cur = 0
		} else {
			cur++
		}
	}
	return append(lens, cur)
}

// posInside: (line, col) is 1-based and denotes a character of the input or the position just past
// the end of its line.
func posInside(in []byte, line, col int) bool {
	lt := lineTable(in)
	return line >= 1 && line <= len(lt) && col >= 1 && col <= lt[line-1]+1
}

type lexMode struct{ prop string }

// lexSweep runs the three-way comparison (real lexer, Lean model, Lean specification) on a batch and
// reports what concerns c.Prop (C01: totality + error position inside the input; C03: tokens vs the
// lexical grammar; C04: line/column vs the position specification). Every property reports a
// lexer/model disagreement (the correspondence).
func (c *Ctx) lexSweep(inputs [][]byte, space string) {
	reqM := make([]string, len(inputs))
	reqS := make([]string, len(inputs))
	for i, in := range inputs {
		h := impl.HexW(in)
		reqM[i] = "lex " + h
		reqS[i] = "lexspec " + h
	}
	model := c.Driver.Map(reqM)
	var spec []string
	if c.Prop == "C03" || c.Prop == "C04" {
		spec = c.Driver.Map(reqS)
	}
	// the real lexer runs in worker processes: a lexer that hangs or dies must become an observation
	// (TIMEOUT / CRASH), not a hung or dead check
	goAll := c.Worker.Map(reqM)
	for i, in := range inputs {
		goObs := goAll[i]
		if goObs == "SKIPPED" {
			continue
		}
		c.Ev.Traces++
		g := ParseLexObs(goObs)
		c.Ev.Case(goObs, len(g.Toks) >= 2 || (g.Status == "E" && len(g.Toks) >= 1))
		c.Ev.Count("status:"+g.Status, 1)
		rep := func() map[string]any {
			m := map[string]any{"op": "lex", "input_hex": impl.HexW(in), "input": string(in), "go_observation": goObs, "model_observation": model[i], "space": space}
			if spec != nil {
				m["spec_observation"] = spec[i]
			}
			return m
		}
		if goObs != model[i] {
			c.Report("correspondence", "lex-model-differs", fmt.Sprintf("lexer and Lean model disagree on %q: go=%s model=%s", in, goObs, model[i]), rep())
		}
		switch c.Prop {
		case "C01":
			if g.Status == "PANIC" || g.Status == "FUEL" || g.Status == "BAD" || g.Status == "CRASH" || g.Status == "TIMEOUT" {
				c.Report("runtime", "lexer-"+strings.ToLower(g.Status), fmt.Sprintf("lexing %q: %s", in, goObs), rep())
			}
			if g.Status == "E" && !posInside(in, g.ELine, g.ECol) {
				c.Report("spec", "lex-error-position-outside-input", fmt.Sprintf("lexing %q: error at %d:%d is outside the input", in, g.ELine, g.ECol), rep())
			}
			if g.Status == "E" && g.EMsg == "-" {
				c.Report("spec", "lex-error-empty-message", fmt.Sprintf("lexing %q: empty message", in), rep())
			}
		case "C03":
			c.judgeTokens(in, g, ParseLexObs(spec[i]), rep)
		case "C04":
			c.judgePositions(in, g, ParseLexObs(spec[i]), rep)
		}
	}
}

// closingRunLongerThanThree: for a block string opening at byte offset p, the first unescaped
// `"""` after the opening quotes is directly followed by another quote.
func closingRunLongerThanThree(in []byte, p int) bool {
	i := p + 3
	for i+3 <= len(in) {
		if in[i] == '\\' && i+4 <= len(in) && string(in[i:i+4]) == `\"""` {
			i += 4
			continue
		}
		if string(in[i:i+3]) == `"""` {
			return i+3 < len(in) && in[i+3] == '"'
		}
		i++
	}
	return false
}

func isNumFollow(b byte) bool {
	return b >= '0' && b <= '9' || b == '.' || b == '_' || b >= 'a' && b <= 'z' || b >= 'A' && b <= 'Z'
}

// byteOffsetOfRune maps a rune offset to a byte offset (invalid bytes count one rune each).
func byteOffsetOfRune(in []byte, r int) int {
	i := 0
	for ; r > 0 && i < len(in); r-- {
		_, w := utf8.DecodeRune(in[i:])
		i += w
	}
	return i
}

// judgeTokens: C03 — kinds, extents and values must be the ones the grammar defines, and the lexer
// must fail exactly where the grammar admits no token.
func (c *Ctx) judgeTokens(in []byte, g, s LexObs, rep func() map[string]any) {
	if s.Status == "NOTUTF8" || s.Status == "BAD" {
		return
	}
	n := len(g.Toks)
	if len(s.Toks) < n {
		n = len(s.Toks)
	}
	for k := 0; k < n; k++ {
		a, b := g.Toks[k], s.Toks[k]
		if a.Kind == b.Kind && a.Start == b.Start && a.End == b.End && a.Value == b.Value {
			continue
		}
		sig := fmt.Sprintf("token-differs-from-grammar:kind%d", a.Kind)
		if a.Kind == 20 && b.Kind == 20 && a.Start == b.Start {
			if closingRunLongerThanThree(in, byteOffsetOfRune(in, a.Start)) {
				sig = "block-string-closed-by-last-three-of-longer-quote-run"
			} else {
				sig = "block-string-value-differs-from-BlockStringValue"
			}
		}
		c.Report("spec", sig, fmt.Sprintf("lexing %q: token %d is %+v, the grammar defines %+v", in, k, a, b), rep())
		return
	}
	switch {
	case g.Status == s.Status && len(g.Toks) == len(s.Toks):
		return
	case s.Status == "E" && len(g.Toks) > len(s.Toks):
		// the grammar admits no token here but the lexer produced one
		t := g.Toks[len(s.Toks)]
		sig := fmt.Sprintf("token-where-grammar-admits-none:kind%d", t.Kind)
		if (t.Kind == 17 || t.Kind == 18) && byteOffsetOfRune(in, t.End) < len(in) && isNumFollow(in[byteOffsetOfRune(in, t.End)]) {
			sig = "number-followed-by-digit-dot-or-name-start"
		}
		c.Report("spec", sig, fmt.Sprintf("lexing %q: lexer yields token %+v where the grammar admits no token", in, t), rep())
	case g.Status == "E" && len(s.Toks) > len(g.Toks):
		sig := "lexer-fails-where-grammar-admits-token"
		c.Report("spec", sig, fmt.Sprintf("lexing %q: lexer fails (%d:%d) where the grammar admits token %+v", in, g.ELine, g.ECol, s.Toks[len(g.Toks)]), rep())
	default:
		c.Report("spec", "lexer-verdict-differs", fmt.Sprintf("lexing %q: lexer %s with %d tokens, grammar %s with %d", in, g.Status, len(g.Toks), s.Status, len(s.Toks)), rep())
	}
}

// judgePositions: C04 — for every token the lexer produced at the offset the grammar defines,
// line and column must be the ones computed from the source text.
func (c *Ctx) judgePositions(in []byte, g, s LexObs, rep func() map[string]any) {
	if s.Status == "NOTUTF8" || s.Status == "BAD" {
		return
	}
	nr := utf8.RuneCount(in)
	for k, a := range g.Toks {
		if a.Start < 0 || a.Start > a.End || a.End > nr {
			c.Report("spec", "token-extent-outside-source", fmt.Sprintf("lexing %q: token %d extent [%d,%d) outside 0..%d", in, k, a.Start, a.End, nr), rep())
			return
		}
		if k >= len(s.Toks) {
			break
		}
		b := s.Toks[k]
		if a.Kind != b.Kind || a.Start != b.Start {
			break // token structure differs: that is C03's business
		}
		if a.Line != b.Line || a.Col != b.Col {
			sig := fmt.Sprintf("line-column-wrong:kind%d", a.Kind)
			switch {
			case a.Kind == 20:
				sig = "block-string-position-taken-after-scanning"
			case a.Kind == 19 && a.Line == b.Line && a.Col == b.Col+1:
				sig = "string-column-off-by-one"
			case bytes.Contains(in, []byte("\r\n")) && a.Line == b.Line && a.Col == b.Col+1:
				sig = "column-after-crlf-off-by-one"
			}
			c.Report("spec", sig, fmt.Sprintf("lexing %q: token %d (kind %d, offset %d) reported at %d:%d, source says %d:%d", in, k, a.Kind, a.Start, a.Line, a.Col, b.Line, b.Col), rep())
			return
		}
	}
	if g.Status == "E" && !posInside(in, g.ELine, g.ECol) {
		c.Report("spec", "lex-error-position-outside-input", fmt.Sprintf("lexing %q: error at %d:%d is outside the input", in, g.ELine, g.ECol), rep())
	}
}
