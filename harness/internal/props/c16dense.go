package props

import (
	"fmt"
	"strconv"
	"strings"

	"verifharness/internal/impl"
	"verifharness/internal/rng"
)

// denseDocs: executable documents written with one-byte tokens and NO ignored characters, so that
// the number of bytes equals the number of tokens (a size-based shortcut around the token
// accounting is exact only when it counts tokens); with and without one final newline / one
// leading blank.
func denseDocs(r *rng.R, n int) [][]byte {
	letters := "abcdefgxyz"
	l := func() string { return string(letters[r.Intn(len(letters))]) }
	var value func(d int) string
	value = func(d int) string {
		switch k := r.Intn(6); {
		case k == 0 && d > 0:
			return "[" + value(d-1) + "]"
		case k == 1 && d > 0:
			return "{" + l() + ":" + value(d-1) + "}"
		case k == 2:
			return "$" + l()
		case k == 3 && d > 0:
			return "[" + strconv.Itoa(r.Intn(10)) + "[" + value(d-1) + "]]"
		default:
			return strconv.Itoa(r.Intn(10))
		}
	}
	var sel func(d int) string
	sel = func(d int) string {
		f := l()
		if r.Chance(1, 3) {
			f += "(" + l() + ":" + value(2) + ")"
		}
		if r.Chance(1, 5) {
			f += "@" + l()
		}
		if d > 0 && r.Chance(2, 3) {
			f += sel(d - 1)
		}
		return "{" + f + "}"
	}
	var out [][]byte
	for i := 0; i < n; i++ {
		s := sel(r.Intn(7))
		switch r.Intn(4) {
		case 0:
			s += "\n"
		case 1:
			s = " " + s
		}
		out = append(out, []byte(s))
	}
	return out
}

// builtinFlagSweep: ParseSchemas / ParseSchemasWithLimit over sources whose BuiltIn flag is set,
// with definitions AND extensions: a limit that is not exceeded (and limit 0) must give the tree
// of the unlimited parse, BuiltIn marks included; every observation is also compared with the
// Lean model (`psb`).
func (c *Ctx) builtinFlagSweep(ss []string) {
	var sets [][]string
	exts := []string{"extend type Query { zz: Int }", "extend schema @a", "extend enum E { B }\nscalar S", "extend input I { b: Int } extend union U = A"}
	for i, s := range ss {
		if len(s) > 4000 {
			continue
		}
		sets = append(sets, []string{s})
		sets = append(sets, []string{s + "\n" + exts[i%len(exts)]})
		if i+1 < len(ss) && len(ss[i+1]) < 4000 {
			sets = append(sets, []string{exts[(i+1)%len(exts)], s, ss[i+1]})
		}
	}
	for i := 0; i < c.Pick(300, 3000); i++ {
		sets = append(sets, []string{MutateTokens(c.R, ss[c.R.Intn(len(ss))]) + " " + exts[c.R.Intn(len(exts))]})
	}
	var reqs []string
	type span struct{ lo, n int }
	var spans []span
	spTotal := map[int]int{}
	for _, set := range sets {
		total := 0
		var hx []string
		for _, s := range set {
			total = max(total, TokenCount([]byte(s)))
			hx = append(hx, impl.HexW([]byte(s)))
		}
		for f := 0; f < 1<<len(set); f++ {
			if len(set) > 1 && f != 0 && f != 1<<len(set)-1 && !c.R.Chance(1, 2) {
				continue
			}
			flags := ""
			for k := range set {
				flags += strconv.Itoa((f >> k) & 1)
			}
			spans = append(spans, span{len(reqs), 7})
			spTotal[len(reqs)] = total
			// the last three limits are smaller than the token count of the longest source: whatever its
			// BuiltIn flag says, no document may come back
			for _, l := range []int{-1, 0, total, total + 7, max(total-2, 1), max(total/2, 1), 1} {
				reqs = append(reqs, "psb "+strconv.Itoa(l)+" "+flags+" "+strings.Join(hx, " "))
			}
		}
	}
	obs := c.CorrParseReqs(reqs, "schema-builtin-flags")
	for _, sp := range spans {
		base := obs[sp.lo]
		c.Ev.Case("psb"+clip(base, 120), strings.Contains(base, "(SDOC"))
		for k := 4; k < sp.n; k++ {
			if o := obs[sp.lo+k]; strings.HasPrefix(o, "(SDOC") && strings.HasPrefix(base, "(SDOC") {
				var lim int
				fmt.Sscan(strings.Fields(reqs[sp.lo+k])[1], &lim)
				if lim+2 <= spTotal[sp.lo] {
					c.Report("spec", "document-beyond-the-limit-accepted", "sources with BuiltIn flags: "+clip(reqs[sp.lo+k], 200)+" returns a document although a source has "+strconv.Itoa(spTotal[sp.lo])+" tokens",
						map[string]any{"op": "psb", "request": reqs[sp.lo+k], "limited": o, "tokens_of_longest_source": spTotal[sp.lo]})
				}
			}
		}
		for k := 1; k < 4; k++ {
			if o := obs[sp.lo+k]; o != base && o != "SKIPPED" && base != "SKIPPED" && !(k == 2 && strings.HasPrefix(o, "E,0,0,")) {
				c.Report("spec", "limit-rejects-or-changes-document-within-limit", "sources with BuiltIn flags: "+clip(reqs[sp.lo+k], 200)+" gives "+clip(o, 300)+" but the unlimited parse gives "+clip(base, 300),
					map[string]any{"op": "psb", "request": reqs[sp.lo+k], "unlimited_request": reqs[sp.lo], "limited": o, "unlimited": base})
			}
		}
	}
}

// limitHistories: a parse under a limit must not depend on an earlier parse in the same process, and
// must give the tree of the unlimited parse down to positions and comment groups (compared in the
// worker by reflect.DeepEqual). Earlier texts end in comments, stop inside comment runs under small
// limits, or are ordinary corpus documents.
func (c *Ctx) limitHistories(grammar string, corpus []string) {
	g := "q"
	earlier := []string{"{ a }\n# note\n", "# one\n# two\n{ f }", "{ f # one\n# two\n}", "query Q { a } # tail", "# only a comment"}
	if grammar == "schema" {
		g = "s"
		earlier = []string{"type T { a: Int }\n# note\n", "# one\n# two\ntype T { f: Int }", "type T {\n # one\n # two\n f: Int\n}", "scalar S # tail", "# only a comment"}
	}
	var reqs []string
	for i, doc := range corpus {
		if len(doc) > 3000 {
			continue
		}
		n := TokenCount([]byte(doc))
		for k, e := range earlier {
			if (i+k)%3 != 0 {
				continue
			}
			for _, l0 := range []int{1, 2, 3, 0} {
				reqs = append(reqs, fmt.Sprintf("pqhist %s %d %s %d %s", g, l0, impl.HexW([]byte(e)), n+5, impl.HexW([]byte(doc))))
			}
		}
		reqs = append(reqs, fmt.Sprintf("pqhist %s %d %s %d %s", g, 2, impl.HexW([]byte(corpus[(i+1)%len(corpus)])), 0, impl.HexW([]byte(doc))))
	}
	// every history in a process of its own would be exact; the worker pool gives each process many
	// histories in a row, which only adds earlier parses
	out := c.Worker.Map(reqs)
	for i, o := range out {
		c.Ev.Case("pqhist:"+clip(o, 12)+clip(reqs[i], 60), true)
		if o != "same" && o != "SKIPPED" {
			f := strings.Fields(o)
			what := o
			if len(f) == 3 {
				a, _ := impl.UnhexW(f[1])
				b, _ := impl.UnhexW(f[2])
				da, db := firstDiffLine(string(a), string(b))
				what = "tree-differs: [" + clipL(da) + "] under the limit vs [" + clipL(db) + "] without"
			}
			c.Report("spec", "limited-parse-differs-after-earlier-parse", fmt.Sprintf("%s: %s", clip(reqs[i], 160), what), map[string]any{"op": "pqhist", "request": reqs[i], "observation": clip(o, 2000)})
		}
	}
	c.Ev.Count("limit-histories:"+grammar, len(reqs))
}
