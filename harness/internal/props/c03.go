package props

import "bytes"

// enumLex runs f over the lex19 space in batches.
func (c *Ctx) enumSpace(alpha [][]byte, maxLen int, space string, f func(batch [][]byte, space string)) {
	var batch [][]byte
	EnumUpTo(alpha, maxLen, func(s []byte) {
		batch = append(batch, append([]byte(nil), s...))
		if len(batch) >= 200000 {
			f(batch, space)
			batch = batch[:0]
		}
	})
	f(batch, space)
}

func (c *Ctx) lexerExploration() {
	c.enumSpace(Lex19, c.Pick(4, 5), "lex19", c.lexSweep)
	c.enumSpace(LexRaw16, c.Pick(4, 5), "lexraw16", c.lexSweep)
	// block-string bodies
	var blocks [][]byte
	for _, alpha := range [][][]byte{Block6, Block6Tab} {
		EnumUpTo(alpha, c.Pick(6, 7), func(s []byte) {
			b := append([]byte(`"""`), s...)
			blocks = append(blocks, append(b, `"""`...))
		})
	}
	c.lexSweep(blocks, "block6")
	// escape sequences: every \uXXXX over an alphabet of hex digits of both cases, near-hex letters,
	// control bytes that differ from digits in one bit, a quote, a blank and a non-ASCII byte pair
	var escs [][]byte
	// and the characters number parsers of standard libraries take besides digits (sign, separator, radix mark)
	hexish := [][]byte{{'0'}, {'1'}, {'9'}, {'a'}, {'F'}, {'g'}, {'D'}, {'8'}, {0x10}, {0x19}, {0x1f}, {' '}, {'"'}, {0xc3, 0xa9}, {'+'}, {'-'}, {'_'}, {'x'}}
	EnumUpTo(hexish, 4, func(s []byte) {
		if len(s) >= 3 {
			escs = append(escs, append(append([]byte("\"\\u"), s...), '"'), append(append([]byte("\"a\\u"), s...), []byte("z\" b")...))
		}
	})
	c.lexSweep(escs, "unicode-escapes")
	// truncations: every prefix of literals whose scanners look ahead (escapes, surrogate pairs written
	// as two escapes, block-string escapes, numbers with exponents, spreads), bare and inside a document
	var trunc [][]byte
	for _, lit := range []string{`"\uD83D\uDE00"`, `"\uD83D\u0041"`, `"\uDE00\uD83D"`, `"\u00e9\u2028\uFFFF"`, `"a\\\"b\n\t\/"`, `"""a\"""b"""`, `""""""`, `"""\n  x\r\n"""`,
		`-12.5e+10`, `0.0E-0`, `...`, `$v:[Int!]!=[1]`, `@d(a:{b:[$c]})`, "\ufeff#c\r\n{a}", `"\u{1F600}"`, `"\ud83d\ude00\ud83d"`} {
		for i := 0; i <= len(lit); i++ {
			trunc = append(trunc, []byte(lit[:i]), []byte("{ f(a: "+lit[:i]), []byte(lit[:i]+`"`), []byte("type T { f(a: String = "+lit[:i]))
		}
	}
	c.lexSweep(trunc, "truncations")
	// long lines: buffer sizes of standard-library readers (4 KiB, 64 KiB) must not show in token values —
	// block strings, quoted strings, comments and names with one line of exactly / just around such a size
	var long [][]byte
	for _, n := range []int{4095, 4096, 4097, 65534, 65535, 65536, 65537, c.Pick(100000, 1<<20)} {
		x := bytes.Repeat([]byte("x"), n)
		sp := bytes.Repeat([]byte(" "), n)
		long = append(long,
			[]byte("\"\"\"\n  first\n  "+string(x)+"\n    last\n\"\"\" b"),
			[]byte("\"\"\"\n"+string(x[:n-2])+"\n  second\r\n   third\"\"\""),
			[]byte("\"\"\""+string(x)+"\n  y\n z\"\"\""),
			[]byte("\"\"\"\n a\n"+string(sp)+"\n  b\n"+string(sp)+"c\"\"\""),
			[]byte("{ f(a: \""+string(x)+"\\u0041\") } # "+string(x)+"\r\n"+string(x)+" 1"),
		)
	}
	c.lexSweep(long, "long-lines")
	// repository corpus and random long inputs
	qs, ss := RepoGraphQLInputs()
	var corpus [][]byte
	for _, q := range append(qs, ss...) {
		corpus = append(corpus, []byte(q))
	}
	c.lexSweep(corpus, "repo-corpus")
	n := c.Pick(100000, 2000000)
	var rnd [][]byte
	for i := 0; i < n; i++ {
		if i%4 == 0 && len(corpus) > 0 {
			rnd = append(rnd, MutateBytes(c.R, corpus[c.R.Intn(len(corpus))]))
		} else {
			rnd = append(rnd, GenBytes(c.R, 60))
		}
		if len(rnd) >= 200000 {
			c.lexSweep(rnd, "random")
			rnd = rnd[:0]
		}
	}
	c.lexSweep(rnd, "random")
	c.Ev.Exhaustive = true
	c.Ev.Rule = "exhaustive: every string of ≤N symbols over lex19 (19 lexically significant symbols) and lexraw16 (raw bytes), every block-string body of ≤M symbols over 6 symbols (two variants), every \\uXXXX escape over an 18-symbol alphabet of hex, near-hex, sign/separator/radix bytes, every prefix of 16 look-ahead-heavy literals, literals with one line of 4 KiB / 64 KiB / larger; plus the repository's own test inputs, their random mutations and random byte strings. Non-trivial: ≥2 tokens, or a lexical error after ≥1 token; distinct by observation."
}

func init() {
	Checks["C03"] = func(c *Ctx) { c.lexerExploration() }
	Checks["C04"] = func(c *Ctx) {
		c.lexerExploration()
		c.treePositionSweep()
		c.Ev.Rule += " Tree and error positions: every Position of parse trees (both grammars, multi-file schema loads) and every location of syntax, load and validation errors must be the offset/line/column of a token start of the file it names, as computed by the position specification; inputs re-rendered with CR/CRLF/LF, BOM, comma, comment (multi-byte) trivia."
	}
}
