package props

import (
	"fmt"

	"verifharness/internal/impl"
)

// corrLex compares the real lexer with the Lean model on a batch of inputs (op `lex`).
func (c *Ctx) corrLex(inputs [][]byte, space string) {
	reqs := make([]string, len(inputs))
	for i, in := range inputs {
		reqs[i] = "lex " + impl.HexW(in)
	}
	model := c.Driver.Map(reqs)
	for i, in := range inputs {
		goObs := impl.Call("lex", []string{impl.HexW(in)})
		c.Ev.Traces++
		if goObs != model[i] {
			c.Report("correspondence", "lex-model-differs", fmt.Sprintf("lexer and Lean model disagree on %q (%s): go=%s model=%s", in, space, goObs, model[i]),
				map[string]any{"op": "lex", "input_hex": impl.HexW(in), "go_observation": goObs, "model_observation": model[i]})
		}
	}
}

func checkC03(c *Ctx) {
	var batch [][]byte
	flush := func() {
		c.corrLex(batch, "lex19")
		batch = batch[:0]
	}
	EnumUpTo(Lex19, c.Pick(4, 5), func(s []byte) {
		batch = append(batch, append([]byte(nil), s...))
		c.Ev.Case(string(s), len(s) > 1)
		if len(batch) >= 100000 {
			flush()
		}
	})
	flush()
	c.Ev.Exhaustive = true
	c.Ev.Rule = "lex19: every string of at most N symbols over the 19 lexically significant symbols"
}

func init() { Checks["C03"] = checkC03 }

func init() {
	Checks["X-lexrand"] = func(c *Ctx) {
		var b [][]byte
		EnumUpTo(LexRaw16, 4, func(s []byte) { b = append(b, append([]byte(nil), s...)) })
		for i := 0; i < 200000; i++ {
			b = append(b, GenBytes(c.R, 40))
		}
		c.corrLex(b, "raw+random")
		c.Ev.Evals = len(b)
	}
}
