package props

import (
	"fmt"
	"strings"
	"unicode/utf8"

	"github.com/vektah/gqlparser/v2/lexer"

	"verifharness/internal/gen"
	"verifharness/internal/impl"
	"verifharness/internal/rng"
)

// C05 / C06: the real parsers judged against the GRAMMAR specification
// (lean/GqlModel/Syntax/Grammar.lean, driver ops gq/gs/gqc/gsc, unparseq/unparses).
//
// For every input:
//   - verdict:  ParseQuery / ParseSchema accepts  <=>  the token sequence is derivable;
//   - faithful: for accepted inputs, printX(tree Go built) == canonical form of the input's own
//     token sequence (Print.lean; "exactly what was written, in source order, independent of
//     ignored tokens" as one equation);
//   - the print of the tree is itself a sentence in canonical form (canonq/canons of the print is
//     the print: theorems C05_print_canonical / C06_print_canonical on real trees);
//   - the parser MODEL agrees with the real parser (CorrParseReqs), so theorems about the model
//     speak about the code.
//
// Signatures: parser-accepts-underivable:<class>, parser-rejects-derivable:<class>,
// tree-not-faithful:<class>, print-not-canonical:<class>, ignored-tokens-change-result:<class>. <class> names the known
// deviation that explains the case: the class is only awarded when removing its trigger (and the
// triggers of the other known classes) from the token sequence makes parser and grammar agree;
// otherwise the class is `other`.

type gtok struct {
	kind lexer.Type
	val  string
}

// grammarTokens: the comment-free token sequence (without EOF) of the real lexer; ok=false on a
// lexical error.
func grammarTokens(in []byte) (ts []gtok, starts []int, ok bool) {
	r := impl.LexAll(string(in))
	if r.Err != nil || r.Fuel {
		return nil, nil, false
	}
	for _, t := range r.Toks {
		k := lexer.Type(t.Kind)
		if k == lexer.Comment || k == lexer.EOF {
			continue
		}
		ts = append(ts, gtok{k, t.Value})
		starts = append(starts, t.Start)
	}
	return ts, starts, true
}

func quoteGraphQL(s string) string {
	var sb strings.Builder
	sb.WriteByte('"')
	for i := 0; i < len(s); i++ {
		switch b := s[i]; {
		case b == '"':
			sb.WriteString(`\"`)
		case b == '\\':
			sb.WriteString(`\\`)
		case b < 0x20:
			fmt.Fprintf(&sb, `\u%04x`, b)
		default:
			sb.WriteByte(b)
		}
	}
	sb.WriteByte('"')
	return sb.String()
}

func (t gtok) text() string {
	switch t.kind {
	case lexer.Name, lexer.Int, lexer.Float:
		return t.val
	case lexer.String, lexer.BlockString:
		return quoteGraphQL(t.val)
	}
	return t.kind.String()
}

func renderGToks(ts []gtok) []byte {
	var sb strings.Builder
	for i, t := range ts {
		if i > 0 {
			sb.WriteByte(' ')
		}
		sb.WriteString(t.text())
	}
	return []byte(sb.String())
}

func gIsStr(t gtok) bool            { return t.kind == lexer.String || t.kind == lexer.BlockString }
func gIsName(t gtok, v string) bool { return t.kind == lexer.Name && t.val == v }

type repair struct {
	class string
	apply func(ts []gtok) ([]gtok, bool)
	alt   bool // the second of two alternative repairs of the same trigger
}

func mapToks(ts []gtok, f func(i int) (gtok, bool, bool)) ([]gtok, bool) {
	out := make([]gtok, 0, len(ts))
	changed := false
	for i := range ts {
		t, keep, ch := f(i)
		changed = changed || ch
		if keep {
			out = append(out, t)
		}
	}
	return out, changed
}

// the known deviations of the executable-document parser, as token-level repairs
var queryRepairs = []repair{
	// R5a: `... "on" T { a }` — a string token whose content is `on` taken for the keyword
	{"string-token-as-keyword-on", func(ts []gtok) ([]gtok, bool) {
		return mapToks(ts, func(i int) (gtok, bool, bool) {
			if gIsStr(ts[i]) && ts[i].val == "on" && i > 0 && ts[i-1].kind == lexer.Spread {
				return gtok{lexer.Name, "on"}, true, true
			}
			return ts[i], true, false
		})
	}, false},
	// R5b: a variable inside the (const) directives of a variable definition: `$` at parenthesis depth 2
	{"variable-in-const-directive-of-variable-definition", func(ts []gtok) ([]gtok, bool) {
		depth := 0
		return mapToks(ts, func(i int) (gtok, bool, bool) {
			switch ts[i].kind {
			case lexer.ParenL:
				depth++
			case lexer.ParenR:
				if depth > 0 {
					depth--
				}
			case lexer.BraceL:
				if depth < 2 {
					depth = 0 // a selection set ends every variable-definition list
				}
			case lexer.Dollar:
				if depth >= 2 {
					return ts[i], false, true
				}
			}
			return ts[i], true, false
		})
	}, false},
}

// the known deviations of the type-system parser
var schemaRepairs = []repair{
	// R6a: `type Foo "implements" Bar`
	{"string-token-as-keyword-implements", func(ts []gtok) ([]gtok, bool) {
		return mapToks(ts, func(i int) (gtok, bool, bool) {
			if gIsStr(ts[i]) && ts[i].val == "implements" && i >= 2 && ts[i-1].kind == lexer.Name &&
				(gIsName(ts[i-2], "type") || gIsName(ts[i-2], "interface")) {
				return gtok{lexer.Name, "implements"}, true, true
			}
			return ts[i], true, false
		})
	}, false},
	// R6a, the other direction: `type a "implements" type b` — a description whose content is
	// `implements` after `type Name` is swallowed as the keyword; with any other content the
	// parser sees the description
	{"string-token-as-keyword-implements", func(ts []gtok) ([]gtok, bool) {
		return mapToks(ts, func(i int) (gtok, bool, bool) {
			if gIsStr(ts[i]) && ts[i].val == "implements" && i >= 2 && ts[i-1].kind == lexer.Name &&
				(gIsName(ts[i-2], "type") || gIsName(ts[i-2], "interface")) {
				return gtok{lexer.String, "implementz"}, true, true
			}
			return ts[i], true, false
		})
	}, true},
	// R6g: `schema { "query": Q }`
	{"string-token-as-operation-type", func(ts []gtok) ([]gtok, bool) {
		return mapToks(ts, func(i int) (gtok, bool, bool) {
			if gIsStr(ts[i]) && (ts[i].val == "query" || ts[i].val == "mutation" || ts[i].val == "subscription") &&
				i+1 < len(ts) && ts[i+1].kind == lexer.Colon {
				return gtok{lexer.Name, ts[i].val}, true, true
			}
			return ts[i], true, false
		})
	}, false},
	// R6d: `extend input Foo @d(x: $v)` — no `$` is derivable anywhere in a type-system document
	{"variable-in-const-directive-of-input-extension", func(ts []gtok) ([]gtok, bool) {
		return mapToks(ts, func(i int) (gtok, bool, bool) {
			if ts[i].kind == lexer.Dollar {
				return ts[i], false, true
			}
			return ts[i], true, false
		})
	}, false},
	// R6c: `"" extend type Foo { a: Int }`
	{"empty-description-before-extend", func(ts []gtok) ([]gtok, bool) {
		return mapToks(ts, func(i int) (gtok, bool, bool) {
			if gIsStr(ts[i]) && ts[i].val == "" && i+1 < len(ts) && gIsName(ts[i+1], "extend") {
				return ts[i], false, true
			}
			return ts[i], true, false
		})
	}, false},
	// R6f: `enum E { true }` — renaming true/false/null is verdict-neutral everywhere except in
	// enum-value position (a const value `true` and an enum value `tru` are both derivable)
	{"enum-value-true-false-null", func(ts []gtok) ([]gtok, bool) {
		return mapToks(ts, func(i int) (gtok, bool, bool) {
			if gIsName(ts[i], "true") || gIsName(ts[i], "false") || gIsName(ts[i], "null") {
				return gtok{lexer.Name, "tru"}, true, true
			}
			return ts[i], true, false
		})
	}, false},
	// R6b: `extend interface Foo implements Bar` — object and interface extensions have the same
	// syntax after the keyword, so `extend type` is the repaired spelling
	{"extend-interface-implements", func(ts []gtok) ([]gtok, bool) {
		return mapToks(ts, func(i int) (gtok, bool, bool) {
			if gIsName(ts[i], "interface") && i > 0 && gIsName(ts[i-1], "extend") {
				return gtok{lexer.Name, "type"}, true, true
			}
			return ts[i], true, false
		})
	}, false},
}

// schemaWithoutOpsVariants: `schema` / `schema @d` without `{ RootOperationTypeDefinition+ }`
// (found by this check; not in the DESIGN list). Whether a `schema` token is the keyword cannot be
// decided on the token level (`type type schema`, `schema @extend schema`), so every non-empty
// subset of the candidate occurrences (at most 6) is a variant; a wrong guess is never awarded
// because the repaired spelling must be accepted by parser and grammar.
func schemaWithoutOpsVariants(ts []gtok) [][]gtok {
	type site struct{ from, to int } // ts[from] = `schema`, ts[from+1:to] = its directives
	var sites []site
	depth := 0
	for i := 0; i < len(ts); i++ {
		switch ts[i].kind {
		case lexer.BraceL, lexer.ParenL:
			depth++
		case lexer.BraceR, lexer.ParenR:
			if depth > 0 {
				depth--
			}
		}
		if depth != 0 || !gIsName(ts[i], "schema") {
			continue
		}
		j := i + 1
		for j+1 < len(ts) && ts[j].kind == lexer.At && ts[j+1].kind == lexer.Name {
			j += 2
			if j < len(ts) && ts[j].kind == lexer.ParenL {
				d := 0
				for j < len(ts) {
					if ts[j].kind == lexer.ParenL {
						d++
					} else if ts[j].kind == lexer.ParenR {
						d--
						if d == 0 {
							j++
							break
						}
					}
					j++
				}
			}
		}
		if j >= len(ts) || ts[j].kind != lexer.BraceL {
			sites = append(sites, site{i, min(j, len(ts))})
			if j > i+1 {
				sites = append(sites, site{i, i + 1}) // `schema @schema`: the directives may be something else
			}
		}
	}
	if len(sites) == 0 || len(sites) > 6 {
		return nil
	}
	var out [][]gtok
	for mask := 1; mask < 1<<len(sites); mask++ {
		var v []gtok
		prev := 0
		okMask := true
		for k, st := range sites {
			if mask&(1<<k) == 0 {
				continue
			}
			if st.to < prev {
				okMask = false
				break
			}
			v = append(v, ts[prev:st.to]...)
			v = append(v, gtok{lexer.BraceL, ""}, gtok{lexer.Name, "query"}, gtok{lexer.Colon, ""}, gtok{lexer.Name, "Q"}, gtok{lexer.BraceR, ""})
			prev = st.to
		}
		if okMask {
			out = append(out, append(v, ts[prev:]...))
		}
	}
	return out
}

// classifyCandidates: the token-level repairs of the known deviations that change the input,
// each applied alone, and (last, class "combination-of-known-deviations") all of them together.
// direct != "" classifies without a second look (no token at all / lexical error).
func classifyCandidates(grammar string, in []byte) (direct string, classes []string, repaired [][]byte) {
	ts, _, ok := grammarTokens(in)
	if !ok {
		return "lexical-error", nil, nil
	}
	if len(ts) == 0 {
		return "empty-document", nil, nil
	}
	reps := queryRepairs
	if grammar == "schema" {
		reps = schemaRepairs
	}
	// two cumulative repairs: with the first, and with the second, of alternative repairs
	all, allAlt := ts, ts
	hasAlt := false
	for _, r := range reps {
		if out, ch := r.apply(ts); ch {
			classes = append(classes, r.class)
			repaired = append(repaired, renderGToks(out))
			hasAlt = hasAlt || r.alt
		}
		if !r.alt {
			all, _ = r.apply(all)
		}
	}
	for k := len(reps) - 1; k >= 0; k-- { // alternative repairs first, so that they win their trigger
		if reps[k].alt {
			allAlt, _ = reps[k].apply(allAlt)
		}
	}
	for _, r := range reps {
		if !r.alt {
			allAlt, _ = r.apply(allAlt)
		}
	}
	if grammar == "schema" {
		for _, v := range schemaWithoutOpsVariants(ts) {
			classes = append(classes, "schema-definition-without-operation-types")
			repaired = append(repaired, renderGToks(v))
		}
	}
	if len(classes) > 1 {
		cums := [][]gtok{all}
		if hasAlt {
			cums = append(cums, allAlt)
		}
		for _, cum := range cums {
			classes = append(classes, "combination-of-known-deviations")
			repaired = append(repaired, renderGToks(cum))
			if grammar == "schema" {
				for _, v := range schemaWithoutOpsVariants(cum) {
					classes = append(classes, "combination-of-known-deviations")
					repaired = append(repaired, renderGToks(v))
				}
			}
		}
	}
	return "", classes, repaired
}

func specOps(grammar string) (canon, unparse, rec string) {
	if grammar == "schema" {
		return "gsc", "unparses", "gs"
	}
	return "gqc", "unparseq", "gq"
}

type gverdict struct {
	real     string // observation of the real parser (pq/ps -1)
	canon    string // canonical token list, "0", "LEXERR"
	unparsed string // print of the Go tree ("" when not accepted or not derivable)
	recanon  string // canonical form of the print, computed from the print as a token list
}

func (v gverdict) accepted() bool  { return strings.HasPrefix(v.real, "(") }
func (v gverdict) derivable() bool { return v.canon != "0" && v.canon != "LEXERR" }

// problem: "" when parser and specification agree on the input
func (v gverdict) problem() string {
	switch {
	case v.accepted() && !v.derivable():
		return "parser-accepts-underivable"
	case !v.accepted() && v.derivable():
		return "parser-rejects-derivable"
	case v.accepted() && v.unparsed != v.canon:
		return "tree-not-faithful"
	case v.accepted() && v.recanon != v.unparsed:
		return "print-not-canonical" // the print of the tree is not a sentence, or not in canonical form
	}
	return ""
}

// grammarVerdicts runs the real parser (and, through CorrParseReqs, the parser model) and the
// grammar specification on every input.
func (c *Ctx) grammarVerdicts(grammar, space string, inputs [][]byte) []gverdict {
	canonOp, unparseOp, _ := specOps(grammar)
	op := parseOp(grammar)
	preqs := make([]string, len(inputs))
	creqs := make([]string, len(inputs))
	for i, in := range inputs {
		h := impl.HexW(in)
		preqs[i] = op + " -1 " + h
		creqs[i] = canonOp + " " + h
	}
	real := c.CorrParseReqs(preqs, space)
	canon := c.Driver.Map(creqs)
	out := make([]gverdict, len(inputs))
	var ureqs []string
	var uidx []int
	for i := range inputs {
		out[i] = gverdict{real: real[i], canon: canon[i]}
		if out[i].accepted() && out[i].derivable() {
			ureqs = append(ureqs, unparseOp+" "+real[i])
			uidx = append(uidx, i)
		}
	}
	recanonOp := "canonq "
	if grammar == "schema" {
		recanonOp = "canons "
	}
	us := c.Driver.Map(ureqs)
	rreqs := make([]string, len(us))
	for k, u := range us {
		out[uidx[k]].unparsed = u
		rreqs[k] = recanonOp + u
	}
	for k, r := range c.Driver.Map(rreqs) {
		out[uidx[k]].recanon = r
	}
	return out
}

// GrammarSweep judges the real parser against the grammar on every input. grammar is "query"
// (C05) or "schema" (C06).
func (c *Ctx) GrammarSweep(grammar string, inputs [][]byte) { c.grammarSweep(grammar, "sweep", inputs) }

func (c *Ctx) grammarSweep(grammar, space string, inputs [][]byte) []gverdict {
	const batch = 200000
	var all []gverdict
	for lo := 0; lo < len(inputs); lo += batch {
		hi := min(lo+batch, len(inputs))
		all = append(all, c.grammarSweepBatch(grammar, space, inputs[lo:hi])...)
	}
	return all
}

func (c *Ctx) grammarSweepBatch(grammar, space string, inputs [][]byte) []gverdict {
	vs := c.grammarVerdicts(grammar, grammar+"/"+space, inputs)
	var bad []int
	for i, v := range vs {
		p := v.problem()
		key := "agree-reject"
		switch {
		case p != "":
			key = p
		case v.canon == "LEXERR":
			key = "agree-reject-lexical"
		case v.accepted():
			key = "agree-accept-faithful"
		}
		c.Ev.Count(grammar+"/"+space+"/"+key, 1)
		// non-trivial: accepted with a canonical form of >= 5 tokens, or rejected with >= 3 tokens
		nt := false
		if v.accepted() {
			nt = strings.Count(v.canon, ",") >= 4
		} else {
			nt = TokenCount(inputs[i]) >= 3
		}
		obs := v.real
		if v.accepted() {
			obs = v.canon
		}
		c.Ev.Case(grammar+"|"+obs, nt)
		if p != "" {
			bad = append(bad, i)
		}
	}
	if len(bad) == 0 {
		return vs
	}
	// classification round: a known class is awarded when removing its trigger alone makes parser
	// and grammar agree (or, failing that, removing all known triggers together)
	classes := make([]string, len(bad))
	var rin [][]byte
	type cand struct {
		k     int
		class string
	}
	var rc []cand
	for k, i := range bad {
		direct, cls, reps := classifyCandidates(grammar, inputs[i])
		classes[k] = direct
		for j := range cls {
			rin = append(rin, reps[j])
			rc = append(rc, cand{k, cls[j]})
		}
	}
	if len(rin) > 0 {
		rv := c.grammarVerdicts(grammar, grammar+"/"+space+"-repaired", rin)
		for j, x := range rc {
			// the repaired spelling must be accepted by both sides (agreeing on a rejection proves nothing)
			if classes[x.k] == "" && rv[j].problem() == "" && rv[j].accepted() {
				classes[x.k] = x.class
			}
		}
	}
	for k, i := range bad {
		v := vs[i]
		class := classes[k]
		switch {
		case class == "":
			class = "other"
		case class == "lexical-error" && v.problem() != "parser-accepts-underivable":
			class = "other"
		case class == "empty-document" && v.problem() != "parser-accepts-underivable":
			class = "other"
		}
		sig := v.problem() + ":" + class
		c.Ev.Count(grammar+"/class/"+sig, 1)
		c.Report("spec", sig,
			fmt.Sprintf("%s grammar (%s): %s on input %q: parser=%s grammar=%s tree-print=%s", grammar, space, v.problem(), clip(string(inputs[i]), 300), clip(v.real, 300), clip(v.canon, 200), clip(v.unparsed, 200)),
			map[string]any{"grammar": grammar, "input_hex": impl.HexW(inputs[i]), "input": string(inputs[i]), "parser_observation": v.real, "grammar_canonical": v.canon, "tree_print": v.unparsed})
	}
	return vs
}

var grammarTrivia = []string{",", "\n", " ", "\t", "\r\n", "\r", "#c\n", "# é,{\n", "#\n", "\ufeff", " , ", "\n\n"}

// reTrivia re-renders an input with random ignored tokens inserted in front of tokens (and at
// the end); nil when the input is not valid UTF-8 (token offsets are rune offsets).
func reTrivia(r *rng.R, in []byte) []byte {
	if !utf8.Valid(in) {
		return nil
	}
	res := impl.LexAll(string(in))
	if res.Err != nil || res.Fuel {
		return nil
	}
	runes := []rune(string(in))
	var sb strings.Builder
	prev := 0
	for _, t := range res.Toks {
		if t.Start < prev || t.Start > len(runes) {
			return nil
		}
		sb.WriteString(string(runes[prev:t.Start]))
		prev = t.Start
		for r.Chance(1, 3) {
			sb.WriteString(rng.Pick(r, grammarTrivia))
		}
	}
	sb.WriteString(string(runes[prev:]))
	return []byte(sb.String())
}

// grammarIgnored: ignored tokens do not change verdict, tree print or canonical form.
func (c *Ctx) grammarIgnored(grammar string, inputs [][]byte, base []gverdict) {
	var vin [][]byte
	var vidx []int
	for i, in := range inputs {
		if !base[i].accepted() && c.R.Chance(3, 4) {
			continue // mostly accepted inputs; some rejected ones
		}
		if v := reTrivia(c.R, in); v != nil {
			vin = append(vin, v)
			vidx = append(vidx, i)
		}
	}
	vs := c.grammarSweep(grammar, "ignored-tokens", vin)
	for k, i := range vidx {
		b, v := base[i], vs[k]
		c.Ev.Count(grammar+"/ignored-tokens/compared", 1)
		if b.accepted() != v.accepted() || b.canon != v.canon || b.unparsed != v.unparsed {
			class := "other"
			c.Report("spec", "ignored-tokens-change-result:"+class,
				fmt.Sprintf("%s grammar: inserting ignored tokens changed the result: %q -> %q: parser %s -> %s, canonical %s -> %s, tree %s -> %s", grammar, clip(string(inputs[i]), 200), clip(string(vin[k]), 300),
					clip(b.real, 100), clip(v.real, 100), clip(b.canon, 100), clip(v.canon, 100), clip(b.unparsed, 100), clip(v.unparsed, 100)),
				map[string]any{"grammar": grammar, "input_hex": impl.HexW(inputs[i]), "variant_hex": impl.HexW(vin[k])})
		}
	}
}

// grammarFuelProbe: the recogniser's verdict does not change with 4x the fuel, and gq/gs agree
// with gqc/gsc.
func (c *Ctx) grammarFuelProbe(grammar string, inputs [][]byte, base []gverdict) {
	_, _, rec := specOps(grammar)
	var reqs, reqs4 []string
	var idx []int
	for i, in := range inputs {
		if i%7 != 0 && len(in) < 2000 {
			continue
		}
		h := impl.HexW(in)
		reqs = append(reqs, rec+" "+h)
		reqs4 = append(reqs4, rec+"f 4 "+h)
		idx = append(idx, i)
	}
	a, b := c.Driver.Map(reqs), c.Driver.Map(reqs4)
	for k, i := range idx {
		want := "0"
		switch {
		case base[i].canon == "LEXERR":
			want = "LEXERR"
		case base[i].derivable():
			want = "1"
		}
		c.Ev.Count(grammar+"/fuel-probe", 1)
		if a[k] != want || b[k] != want {
			c.Report("correspondence", "recogniser-fuel-or-op-mismatch",
				fmt.Sprintf("%s: %s=%s %sf 4=%s canonical-op says %s on %q", grammar, rec, a[k], rec, b[k], want, clip(string(inputs[i]), 200)),
				map[string]any{"grammar": grammar, "input_hex": impl.HexW(inputs[i])})
		}
	}
}

// directed probes: the known deviations with their neighbours, and productions that the small
// alphabets do not reach.
var grammarProbesQuery = []string{
	``, ` `, `,`, "#c", "\ufeff", `{a}`, `query{a}`, `{a:a}`, `{a:b}`, `{ ... "on" T { a } }`, `{ ... """on""" T { a } }`, `{ ... on T { a } }`, `{ ... "s" T { a } }`,
	`{ ... "on" }`, `query ($a: Int @d(x: $b)) { a }`, `query ($a: Int @d(x: b)) { a }`, `query ($a: Int = $b) { a }`, `query ($a: Int = [$b]) { a }`,
	`query ($a: Int @d(x: [$b])) { a }`, `query ($a: Int @d(x: {k: $b})) { a }`, `fragment F($a: Int @d(x: $b)) on T { a }`, `fragment F($a: Int) on T { a }`,
	`fragment on on T { a }`, `fragment F on on { a }`, `{ ...on }`, `{ ... on on { a } }`, `{ ...F }`, `{ ...true }`, `{a()}`, `{a{}}`, `query(){a}`, `{a(x:[])}`, `{a(x:{})}`,
	`query "query" {a}`, `"query" {a}`, `"fragment" F on T {a}`, `fragment F "on" T {a}`, `fragment "F" on T {a}`, `mutation {a}`, `subscription S @d {a}`, `query query {a}`, `query on {a}`,
	`{a(x:true y:null z:E w:1 v:1.5 u:"s" t:"""b""" s:$v r:[1 [2]] q:{a:{b:1}})}`, `{a @d @e(x:1)}`, `{a:b(x:1)@d{c}}`, `query Q($a:[[Int!]]!=[[1]] $b:B=null @d){a}`,
	`{a} {b}`, `{a} fragment F on T {b} query Q {c} fragment G on T {d}`, `type T {a:Int}`, `{a} type T {a:Int}`, `extend type T {a:Int}`, `schema {query:Q}`, `"d" {a}`, `"d" query {a}`,
	// the grammar bounds no lexeme: numbers of any magnitude and precision, long names and strings, in every value position
	`{ f(x: 1e309) }`, `query ($v: Big = -1.5E+400) { f }`, `{ f @d(a: [{k: 17.0e999}]) }`, `{ f(x: 1e-400, y: -0.0e-999) }`, `{ f(x: 99999999999999999999999999999, y: -9223372036854775809) }`, `{ f(x: -0, y: 0.0e0, z: 0E+0) }`,
	`fragment F on T @d(a: 1E999) { f(x: [1e400, [2.5e-500]]) }`, `{ ` + strings.Repeat("a", 300) + `: ` + strings.Repeat("b", 4100) + `(x: "` + strings.Repeat("s", 70000) + `") }`, `{ f(x: ` + strings.Repeat("9", 400) + `.` + strings.Repeat("1", 400) + `e` + strings.Repeat("9", 30) + `) }`,
	`{...@d{a}}`, `{...{a}}`, `{... on T @d {a}}`, `{...F@d}`, `{a b:c ...F ...{d}}`, `query Q {a} query Q {a}`, `{a(x:$)}`, `{a(x:$1)}`, `{$a}`, `{a:}`, `{a(x:1}`, `{a(:1)}`, `{a(x 1)}`, `query($a Int){a}`, `query($a:){a}`, `query(a:Int){a}`, `{a(x:&)}`, `{a(x:|)}`, `{a|b}`, `{a&b}`, `{a!}`, `{a=b}`, `query($a:Int!!){a}`, `query($a:[Int){a}`, `query($a:[]){a}`,
}

var grammarProbesSchema = []string{
	``, ` `, "#c", `schema`, `schema @d`, `type Foo "implements" Bar { a: Int }`, `type Foo """implements""" Bar { a: Int }`, `interface Foo "implements" Bar { a: Int }`, `type Foo implements Bar { a: Int }`,
	`extend type Foo "implements" Bar`, `type a "implements" type b`, `type a "implements" type schema`, `interface a """implements""" scalar S`, `schema @schema @schema`, `extend interface Foo implements Bar`, `extend interface Foo implements Bar & Baz @d { a: Int }`, `extend interface Foo implements & Bar`, `extend type Foo implements Bar`,
	`extend interface Foo @d`, `extend interface Foo { a: Int }`, `extend interface Foo`, `"" extend type Foo { a: Int }`, `"""""" extend type Foo { a: Int }`, `"d" extend type Foo { a: Int }`, `"" type Foo { a: Int }`, `"" extend schema @d`,
	`extend input Foo @d(x: $v)`, `extend input Foo @d(x: [$v])`, `extend input Foo @d(x: v)`, `extend input Foo @d(x: $v) { a: Int }`, `input Foo @d(x: $v) { a: Int }`, `extend type Foo @d(x: $v)`, `extend input Foo { a: Int = $v }`, `extend input Foo { a: Int @d(x: $v) }`,
	`enum E { true }`, `enum E { false }`, `enum E { null }`, `enum E { A true }`, `extend enum E { null }`, `enum E { "d" true @d }`, `enum true { A }`, `enum E @true { A }`, `enum E { tru }`, `type T { true: Int }`, `type T { a(true: Int = true): true @true(true: true) }`,
	`schema { "query": Q }`, `schema { """mutation""": Q }`, `extend schema { "query": Q }`, `schema { "subscription": Q query: R }`, `schema { query: Q }`, `schema { "q": Q }`, `schema { q: Q }`, `schema`, `schema @d`, `schema @d(x: 1) @e`, `"d" schema`, `schema type T`, `schema {}`, `type T { schema: Int }`, `extend schema`, `schema { query: "Q" }`, `"schema" { query: Q }`, `schema "d" { query: Q }`,
	`"type" T`, `"extend" type T @d`, `extend "type" T @d`, `"scalar" S`, `"directive" @d on QUERY`, `directive @d "on" QUERY`, `directive @d on "QUERY"`, `directive @d "repeatable" on QUERY`, `directive @d repeatable on QUERY`, `directive @d repeatable repeatable on QUERY`,
	`union U "=" A`, `union U = "A"`, `type T`, `type T {}`, `type T implements`, `type T implements &`, `type T implements A &`, `type T implements A & & B`, `type T implements & A & B`, `type T implements A B`, `type T implements A, B`, `union U`, `union U =`, `union U = |`, `union U = | A`, `union U = A |`, `union U = A | | B`, `union U = | A | B`, `union U @d = A`, `union U = A @d`,
	`extend union U`, `extend union U = A`, `extend union U @d`, `extend union U =`, `extend scalar S`, `extend scalar S @d`, `extend enum E`, `extend enum E {A}`, `extend enum E @d`, `extend enum E {}`, `extend input I`, `extend input I {a:Int}`, `extend input I @d`, `extend type T`, `extend type T implements A`, `extend type T @d`, `extend type T {a:Int}`, `extend schema`, `extend schema @d`, `extend schema {query:Q}`, `extend schema {}`, `extend`, `extend foo`, `extend directive @d on QUERY`,
	`directive @d on QUERY`, `directive @d on | QUERY`, `directive @d on QUERY | FIELD`, `directive @d on QUERY |`, `directive @d on | | QUERY`, `directive @d on FOO`, `directive @d on`, `directive @d(a:Int) on QUERY`, `directive @d() on QUERY`, `directive d on QUERY`, `directive @ d on QUERY`,
	`directive @d on QUERY | MUTATION | SUBSCRIPTION | FIELD | FRAGMENT_DEFINITION | FRAGMENT_SPREAD | INLINE_FRAGMENT | VARIABLE_DEFINITION | SCHEMA | SCALAR | OBJECT | FIELD_DEFINITION | ARGUMENT_DEFINITION | INTERFACE | UNION | ENUM | ENUM_VALUE | INPUT_OBJECT | INPUT_FIELD_DEFINITION`,
	`"d" schema @a { query: Q mutation: M }`, `"""d""" scalar S @a`, `"d" type T implements A & B @a { "d" a("d" x: [Int!]! = [1] @a): Int @a }`, `"d" interface I implements J { a: Int }`, `"d" union U @a = A | B`, `"d" enum E @a { "d" A @a B }`, `"d" input I @a { "d" a: Int = 1 @a }`, `"d" directive @d("d" a: Int = 1 @a) repeatable on QUERY`,
	`type T { a: Int } type U { b: Int } extend type T @d schema { query: T } directive @d on OBJECT extend schema @d union V = T`, `type T { a: Int "d" }`, `type T { a: Int } "d"`, `"d" "d" type T`, `type T { "d" "d" a: Int }`, `type T { a(x: Int = $v): Int }`, `type T @d(x: $v)`, `scalar S @d(x: $v)`, `type T { a: Int @d(x: $v) }`,
	`type T { a(x: Float = 1e309): Int @d(y: -1e-400) }`, `scalar S @d(x: 123456789012345678901234567890, y: 1.5E+999)`, `input I { a: Int = 99999999999999999999 b: Float = -0.0e-999 }`, `enum E { A @d(x: 1e999) }`, `directive @d(a: Float = 17.0e999) on QUERY`,
	`type ` + strings.Repeat("T", 300) + ` { ` + strings.Repeat("a", 4100) + `: Int @d(s: "` + strings.Repeat("s", 70000) + `") }`,
	`{a}`, `query {a}`, `fragment F on T {a}`, `type T {a:Int} {a}`, `type T { a }`, `type T { a: }`, `type T { : Int }`, `type T { a(): Int }`, `type T { a(x): Int }`, `input I { a(x:Int): Int }`, `enum E { A: Int }`, `enum E { A = 1 }`, `type T = A`, `scalar S { a: Int }`, `scalar S = A`, `interface I = A`, `type T { a: [Int }`, `type T { a: Int!! }`, `type T { a: [] }`,
}

func (c *Ctx) grammarCheck(grammar string) {
	r := c.R
	run := func(space string, ins [][]byte, alsoIgnored bool) []gverdict {
		vs := c.grammarSweep(grammar, space, ins)
		c.grammarFuelProbe(grammar, ins, vs)
		if alsoIgnored {
			c.grammarIgnored(grammar, ins, vs)
		}
		return vs
	}
	// (0) directed probes
	probes := grammarProbesQuery
	if grammar == "schema" {
		probes = grammarProbesSchema
	}
	run("probes", toBytes(probes), true)
	// (1) exhaustive token sequences
	if grammar == "query" {
		for ai, alpha := range QTokAlphabets {
			n := c.Pick(5, 6)
			if ai > 0 {
				n = c.Pick(4, 5)
			}
			var ins [][]byte
			EnumTokenSeqs(alpha, n, func(s []byte) { ins = append(ins, s) })
			c.grammarSweep(grammar, fmt.Sprintf("enum-qtok%d-len%d", ai, n), ins)
			c.Ev.Count(grammar+"/enumerated", len(ins))
		}
	} else {
		for ai, alpha := range STokAlphabets {
			n := c.Pick(4, 5)
			var ins [][]byte
			EnumTokenSeqs(alpha, n, func(s []byte) { ins = append(ins, s) })
			c.grammarSweep(grammar, fmt.Sprintf("enum-stok%d-len%d", ai, n), ins)
			c.Ev.Count(grammar+"/enumerated", len(ins))
		}
	}
	// (2) repository corpus (both kinds of document against this grammar)
	qs, ss := RepoGraphQLInputs()
	own, foreign := qs, ss
	if grammar == "schema" {
		own, foreign = ss, qs
	}
	run("corpus", toBytes(own), true)
	run("corpus-foreign", toBytes(foreign), false)
	// (3) generated documents
	var gens []string
	nGen := c.Pick(1500, 8000)
	for i := 0; i < nGen; i++ {
		rr := r.Fork(uint64(i) + 77)
		if grammar == "query" {
			if i%2 == 0 {
				s := gen.GenSchema(rr, 2+rr.Intn(8))
				gens = append(gens, gen.GenDoc(rr, s, 2+rr.Intn(8)).Text)
			} else {
				gens = append(gens, GenQueryText(rr, i%5 == 0, i%3 == 0, i%4 == 0))
			}
		} else {
			if i%2 == 0 {
				gens = append(gens, gen.GenSchema(rr, 2+rr.Intn(10)).SDL())
			} else {
				gens = append(gens, GenSchemaDocText(rr, i%5 == 0, i%3 == 0, i%4 == 0))
			}
		}
	}
	run("generated", toBytes(gens), true)
	// (4) single-token mutations of corpus inputs, probes and generated documents
	seeds := append(append(append([]string{}, own...), probes...), gens...)
	nMut := c.Pick(30000, 100000)
	muts := make([][]byte, 0, nMut)
	for i := 0; i < nMut; i++ {
		m := MutateTokens(r, rng.Pick(r, seeds))
		if r.Chance(1, 5) {
			m = MutateTokens(r, m)
		}
		muts = append(muts, []byte(m))
	}
	run("mutations", muts, true)
	// (5) the parser-model correspondence suite (limits, multi-source, nesting, random bytes)
	if c.Thorough() {
		c.ParseCorrSuite(5, 4, 100000, 50000)
	} else {
		c.ParseCorrSuite(3, 3, 4000, 2000)
	}
	c.Ev.Exhaustive = true
	c.Ev.Rule = "exhaustive: every sequence of ≤N tokens over the token-class alphabets (query: qtok16 and two variants with strings, literals and `mutation`; schema: the four stok16 alphabets and three more with \"\", keyword-valued strings, true, $, =, &, |, repeatable) is parsed by the real parser, by the parser model and by the grammar recogniser; plus directed probes, the repository's own documents, generated documents (typed generators and parse-level generators), their single-token mutations and re-renderings with random ignored tokens. For every accepted input the print of the tree is compared with the canonical form of the token sequence. Non-trivial: accepted with a canonical form of ≥5 tokens, or rejected with ≥3 tokens; distinct by canonical form (accepted) or error observation (rejected)."
	fmt.Println(grammar, "grammar check: evaluations", c.Ev.Evals, "traces", c.Ev.Traces)
	keys := make([]string, 0, len(c.Ev.Counters))
	for k := range c.Ev.Counters {
		if strings.HasPrefix(k, grammar+"/") {
			keys = append(keys, k)
		}
	}
	sortStrings(keys)
	for _, k := range keys {
		fmt.Printf("  %-60s %d\n", k, c.Ev.Counters[k])
	}
}

// QTokAlphabets: qtok16 of DESIGN C05 and two variants reaching values, keyword-valued strings
// and the other operation types.
var QTokAlphabets = [][]string{
	QTok16,
	{"{", "}", "(", ")", "[", "]", ":", "$", "@", "=", "...", "a", "on", `"on"`, "1", "true"},
	{"{", "}", "(", ")", ":", "$", "@", "!", "a", "a", "query", "mutation", "fragment", "on", `"s"`, "null"},
}

// STokAlphabets: the four stok16 alphabets of DESIGN C06 and three more that reach the empty
// description, keyword-valued strings, true/false/null, `$` and the remaining keywords.
var STokAlphabets = append(append([][]string{}, STok16...),
	[]string{"{", "}", ":", "a", `""`, `"implements"`, `"query"`, "extend", "type", "interface", "implements", "schema", "query", "enum", "true", "&"},
	[]string{"{", "}", "(", ")", ":", "@", "$", "a", "extend", "input", "type", "enum", "null", "=", "[", "]"},
	[]string{"(", ")", ":", "@", "a", `"d"`, "directive", "repeatable", "on", "|", "FIELD", "ENUM", "scalar", "extend", "=", "union"},
)

func sortStrings(s []string) {
	for i := 1; i < len(s); i++ {
		for j := i; j > 0 && s[j] < s[j-1]; j-- {
			s[j], s[j-1] = s[j-1], s[j]
		}
	}
}

func init() {
	Checks["C05"] = func(c *Ctx) { c.grammarCheck("query") }
	Checks["C06"] = func(c *Ctx) {
		c.grammarCheck("schema")
		// a faithful tree includes the BuiltIn mark of every definition and extension, per source, through
		// ParseSchemas and ParseSchemasWithLimit (theorem C06_builtin_flag)
		_, ss := RepoGraphQLInputs()
		c.builtinFlagSweep(ss)
	}
	Checks["X-grammar-probes"] = func(c *Ctx) {
		for _, g := range []string{"query", "schema"} {
			p := grammarProbesQuery
			if g == "schema" {
				p = grammarProbesSchema
			}
			vs := c.grammarSweep(g, "probes", toBytes(p))
			c.grammarFuelProbe(g, toBytes(p), vs)
			c.grammarIgnored(g, toBytes(p), vs)
		}
		fmt.Println("counters", c.Ev.Counters)
	}
}
