package props

// X-format: correspondence of the formatter model (lean/GqlModel/Format) with the real formatter,
// plus DIRECT round-trip checks of properties C12 / C13 on the real library.
//
//   correspondence signatures: format-model-differs, quote-model-differs, isprint-model-differs,
//                              comments-on-differs (comments-on output of a comment-free document
//                              differs from the comments-off output)
//   direct-check signatures:   roundtrip-reparse-fails/<error label>, roundtrip-tree-differs/<where>,
//                              not-a-fixpoint            (each prefixed q: sd: s: for the three entry points)

import (
	"regexp"
	"fmt"
	"os"
	"sort"
	"strconv"
	"strings"
	"unicode/utf8"

	"verifharness/internal/impl"
	"verifharness/internal/rng"
)

// isPrintModel mirrors Lean `Gql.Format.isPrintDefault`.
func isPrintModel(r rune) bool {
	in := func(lo, hi rune) bool { return lo <= r && r <= hi }
	if r <= 0xFF {
		return in(0x20, 0x7E) || in(0xA1, 0xFF) && r != 0xAD
	}
	notPrint := in(0x0600, 0x0605) || r == 0x061C || r == 0x06DD || r == 0x070F || r == 0x1680 || r == 0x180E ||
		in(0x2000, 0x200F) || in(0x2028, 0x202F) || in(0x205F, 0x206F) || r == 0x3000 ||
		in(0xD800, 0xF8FF) || r == 0xFEFF || in(0xFFF9, 0xFFFB) || r == 0xFFFE || r == 0xFFFF ||
		in(0xE0000, 0xE0FFF) || in(0xF0000, 0x10FFFF)
	return !notPrint
}

// InPrintDomain: the model's default isPrint agrees with Go on r.
func InPrintDomain(r rune) bool { return isPrintModel(r) == strconv.IsPrint(r) }

// textInDomain: every rune that can reach strconv.Quote from this text is in the verified
// domain: runes written raw and runes written as \uXXXX escapes.
func textInDomain(s string) bool {
	for i := 0; i < len(s); {
		r, w := utf8.DecodeRuneInString(s[i:])
		if !(r == utf8.RuneError && w == 1) && !InPrintDomain(r) {
			return false
		}
		if r == '\\' && i+5 < len(s) && s[i+1] == 'u' {
			if v, err := strconv.ParseUint(s[i+2:i+6], 16, 32); err == nil && !InPrintDomain(rune(v)) {
				return false
			}
		}
		i += w
	}
	return true
}

func fmtConfigs(full bool) string {
	var cs []string
	for _, ind := range []string{"", " ", "\t", "    ", " \t", "\n"} {
		for _, comp := range []bool{false, true} {
			if full {
				for _, od := range []bool{false, true} {
					for _, bi := range []bool{false, true} {
						cs = append(cs, impl.FmtCfg{Indent: ind, Builtin: bi, OmitDescription: od, Compacted: comp}.String())
					}
				}
			} else {
				cs = append(cs, impl.FmtCfg{Indent: ind, Compacted: comp}.String())
			}
		}
	}
	if !full {
		cs = append(cs, impl.FmtCfg{Indent: "\t", Builtin: true, OmitDescription: true}.String(),
			impl.FmtCfg{Indent: "  ", Builtin: true, OmitDescription: true, Compacted: true}.String())
	}
	return strings.Join(cs, ";")
}

type fmtKind struct {
	tag          string // q | sd | s
	fmtOp, sxOp  string
	rtOp, fmtcOp string
	cfgs         string
}

var fmtKinds = map[string]fmtKind{
	"q":  {"q", "fmtq", "sxq", "rtq", "fmtqc", fmtConfigs(false)},
	"sd": {"sd", "fmtsd", "sxsd", "rtsd", "fmtsdc", fmtConfigs(true)},
	"s":  {"s", "fmts", "sxs", "rts", "fmtsc", fmtConfigs(true)},
}

type fmtStats struct {
	docs, skipped, compared, outOfDomain, rtOK, rtCases int
	rt, rtTame                                          map[string]int
}

// treesTheParserRefuses: the generated texts are renderings of trees. A text the real parser refuses is
// outside the round trip only if it is outside the grammar; when the parser MODEL (= the grammar:
// C05_accepts_exactly) reads it, the tree exists, and the property speaks about it: the tree is handed to
// the real formatter without going through the parser (model tree → JSON text of the model → encoding/json)
// and its formatted text must parse back to it.
func (c *Ctx) treesTheParserRefuses(k fmtKind, inputs, hexes []string, refused []int, st *fmtStats) {
	if len(refused) == 0 {
		return
	}
	var preq []string
	for _, i := range refused {
		preq = append(preq, "pq -1 "+hexes[i])
	}
	pout := c.Driver.Map(preq)
	var jreq []string
	var jidx []int
	for j, i := range refused {
		if strings.HasPrefix(pout[j], "(") {
			jreq = append(jreq, "jsonenc "+pout[j])
			jidx = append(jidx, i)
		}
	}
	if len(jreq) == 0 {
		return
	}
	jout := c.Driver.Map(jreq)
	var wreq []string
	for j := range jidx {
		wreq = append(wreq, "rtqjson "+k.cfgs+" "+jout[j])
	}
	wout := c.Worker.Map(wreq)
	cfgs := strings.Split(k.cfgs, ";")
	for j, i := range jidx {
		c.Ev.Count("q:trees-of-texts-the-parser-refuses", 1)
		rep := map[string]any{"kind": "q-tree", "input_hex": hexes[i], "input": inputs[i], "tree_json_hex": jout[j], "observation": clip(wout[j], 2000)}
		found := false
		for x, r := range strings.Split(wout[j], ";") {
			if r == "ok" || x >= len(cfgs) {
				continue
			}
			p := strings.SplitN(r, ":", 4)
			if len(p) >= 3 && (p[0] == "reparse-fails" || p[0] == "tree-differs") {
				found = true
				c.Report("spec", "q:tree-roundtrip-"+p[0]+"/"+p[1], fmt.Sprintf("the tree of %q (read by the parser model; the real parser refuses that text) cfg %s: its formatted text %q %s", inputs[i], cfgs[x], unhexS(p[len(p)-1]), p[0]), rep)
				break
			}
		}
		if !found {
			c.ReportNoInput("correspondence", "q:parser-refuses-what-its-model-reads", fmt.Sprintf("the real parser refuses %q, the parser model reads it; the tree could not be handed to the formatter (%s)", inputs[i], clip(wout[j], 200)), rep)
		}
	}
}

// runFormatBatch runs the correspondence and the direct checks for one batch of source texts.
func (c *Ctx) runFormatBatch(k fmtKind, inputs []string, st *fmtStats, tame ...bool) {
	cfgs := strings.Split(k.cfgs, ";")
	hexes := make([]string, len(inputs))
	var wreq []string
	for i, in := range inputs {
		hexes[i] = impl.HexW([]byte(in))
		wreq = append(wreq, k.sxOp+" "+hexes[i], k.fmtOp+" "+k.cfgs+" "+hexes[i], k.fmtcOp+" "+k.cfgs+" "+hexes[i], k.rtOp+" "+k.cfgs+" "+hexes[i])
	}
	wout := c.Worker.Map(wreq)
	var dreq []string
	var didx []int
	var refused []int
	for i := range inputs {
		sx := wout[4*i]
		if !strings.HasPrefix(sx, "(") {
			st.skipped++
			if k.tag == "q" && strings.HasPrefix(sx, "E") {
				refused = append(refused, i)
			}
			if strings.HasPrefix(sx, "CRASH") || strings.HasPrefix(sx, "TIMEOUT") || strings.HasPrefix(sx, "PANIC") {
				c.Report("runtime", k.tag+":parse-crash", fmt.Sprintf("parsing/loading %q: %s", inputs[i], sx), map[string]any{"op": k.sxOp, "input_hex": hexes[i]})
			}
			continue
		}
		st.docs++
		dreq = append(dreq, k.fmtOp+" "+k.cfgs+" "+sx)
		didx = append(didx, i)
	}
	c.treesTheParserRefuses(k, inputs, hexes, refused, st)
	dout := c.Driver.Map(dreq)
	for j, i := range didx {
		in := inputs[i]
		goOut, goOutC, rt := wout[4*i+1], wout[4*i+2], wout[4*i+3]
		c.Ev.Case(k.tag+in, true)
		replay := func(extra map[string]any) map[string]any {
			m := map[string]any{"kind": k.tag, "input_hex": hexes[i], "input": in}
			for a, b := range extra {
				m[a] = b
			}
			return m
		}
		if strings.HasPrefix(goOut, "PANIC") || strings.HasPrefix(goOut, "CRASH") || strings.HasPrefix(goOut, "TIMEOUT") {
			c.Report("runtime", k.tag+":format-crash", fmt.Sprintf("formatting %q: %s", in, goOut), replay(nil))
			continue
		}
		// (i) model == implementation, config by config
		if goOut != dout[j] {
			if !textInDomain(in) {
				st.outOfDomain++
			} else {
				g, m := strings.Split(goOut, ";"), strings.Split(dout[j], ";")
				for x := range cfgs {
					if x >= len(g) || x >= len(m) || g[x] != m[x] {
						gv, mv := "?", dout[j]
						if x < len(g) {
							gv = unhexS(g[x])
						}
						if x < len(m) {
							mv = unhexS(m[x])
						}
						c.Report("correspondence", "format-model-differs", fmt.Sprintf("%s: formatter and Lean model disagree on %q cfg %s:\n go   =%q\n model=%q", k.tag, in, cfgs[x], gv, mv),
							replay(map[string]any{"cfg": cfgs[x], "go_observation": g, "model_observation": m}))
						break
					}
				}
			}
		} else {
			st.compared += len(cfgs)
			c.Ev.Traces += len(cfgs)
		}
		// comments on == comments off for documents without comments
		if k.tag == "s" {
			// with WithBuiltin the prelude's own comments are printed: compare the other configurations
			goOutC, goOut = dropBuiltinCfgs(goOutC, cfgs), dropBuiltinCfgs(goOut, cfgs)
		}
		if !strings.Contains(in, "#") && goOutC != goOut {
			c.Report("correspondence", "comments-on-differs", fmt.Sprintf("%s: comment-free document %q formats differently with WithComments()", k.tag, in), replay(nil))
		}
		// (ii) direct round-trip checks. Schema texts that are not valid UTF-8 are outside the
		// properties' quantifier ("whatever characters they contain"): descriptions are written as block
		// strings, and the block-string lexer re-encodes what it decodes, so ill-formed bytes cannot
		// survive there. Executable documents are in the domain whatever bytes they contain: string
		// values are written as quoted strings and the lexer keeps the source bytes of a quoted string
		// (theorems C12_quote_roundtrip_bytes, C12_string_value_illformed_roundtrip).
		if k.tag != "q" && !utf8.ValidString(in) {
			st.outOfDomain++
			continue
		}
		for x, r := range strings.Split(rt, ";") {
			st.rtCases++
			if r == "ok" {
				st.rtOK++
				continue
			}
			p := strings.SplitN(r, ":", 4)
			cfg := "?"
			if x < len(cfgs) {
				cfg = cfgs[x]
			}
			var sig, what string
			switch p[0] {
			case "reparse-fails":
				sig = k.tag + ":roundtrip-reparse-fails/" + p[1]
				what = fmt.Sprintf("input %q cfg %s: formatted text %q does not parse: %s", in, cfg, unhexS(p[3]), unhexS(p[2]))
			case "tree-differs":
				sig = k.tag + ":roundtrip-tree-differs/" + p[1]
				what = fmt.Sprintf("input %q cfg %s: formatted text %q parses to a different tree (first difference inside %s)", in, cfg, unhexS(p[2]), p[1])
			case "builtin-not-reloadable":
				sig = k.tag + ":builtin-output-not-reloadable/" + p[1]
				what = fmt.Sprintf("input %q cfg %s: the WithBuiltin output does not load stand-alone: %s", in, cfg, unhexS(p[2]))
			case "not-a-fixpoint":
				sig = k.tag + ":not-a-fixpoint"
				what = fmt.Sprintf("input %q cfg %s: formatted text %q re-formats to %q", in, cfg, unhexS(p[1]), unhexS(p[2]))
			default:
				sig = k.tag + ":roundtrip-crash"
				what = fmt.Sprintf("input %q cfg %s: %s", in, cfg, r)
			}
			if k.tag != "q" && strings.HasPrefix(cfg, "0a") && (p[0] == "tree-differs" || p[0] == "not-a-fixpoint") {
				// recorded finding: under an indent that contains a line terminator the lines of a block
				// description are re-indented with line breaks, which BlockStringValue() does not strip
				// (theorem C13_description_newline_indent_counterexample)
				sig = k.tag + ":description-changed-under-line-break-indent"
			}
			if k.tag == "s" && (p[0] == "tree-differs" || p[0] == "not-a-fixpoint" || p[0] == "reparse-fails") && preludeExtRe.MatchString(in) {
				// recorded finding: FormatSchema skips the types of the prelude altogether, so what a schema
				// added to one of them by `extend …` is not printed (theorem C13_schema_reload_needs_no_builtin_extension)
				sig = "s:prelude-type-extension-lost"
			}
			st.rt[sig]++
			if i < len(tame) && tame[i] {
				st.rtTame[sig]++
				sig += "+tame"
			}
			c.fmtKeepSmallest(sig, what, in, replay(map[string]any{"cfg": cfg, "outcome": r}))
		}
	}
}

var preludeExtRe = regexp.MustCompile(`extend\s+(type|scalar|enum|interface|input|union)\s+(__\w+|String|Int|Float|Boolean|ID)\b`)

func dropBuiltinCfgs(outs string, cfgs []string) string {
	var keep []string
	for i, o := range strings.Split(outs, ";") {
		if i < len(cfgs) && strings.Split(cfgs[i], ",")[1] == "0" {
			keep = append(keep, o)
		}
	}
	return strings.Join(keep, ";")
}

func unhexS(h string) string {
	b, ok := impl.UnhexW(h)
	if !ok {
		return h
	}
	return string(b)
}

type fmtFinding struct {
	what   string
	in     string
	replay map[string]any
}

var fmtFindings = map[string]*fmtFinding{}

// keep the shortest input per signature; reported at the end of the run
func (c *Ctx) fmtKeepSmallest(sig, what, in string, replay map[string]any) {
	if f, ok := fmtFindings[sig]; ok && len(f.in) <= len(in) {
		return
	}
	fmtFindings[sig] = &fmtFinding{what, in, replay}
}

func checkXFormat(c *Ctx) {
	// 0. the isPrint domain, exhaustively; the model's table against its Go mirror
	disagree := 0
	var firstBad []string
	var ipReq []string
	var ipRunes []rune
	for r := rune(0); r <= 0x10FFFF; r++ {
		if !InPrintDomain(r) {
			disagree++
			if len(firstBad) < 8 {
				firstBad = append(firstBad, fmt.Sprintf("U+%04X", r))
			}
		}
		if r < 0x3100 || r%97 == 0 || r >= 0xD7F0 && r <= 0xE010 || r >= 0xF8F0 && r <= 0x10010 || r >= 0xDFFF0 {
			ipReq = append(ipReq, "isprint "+strconv.Itoa(int(r)))
			ipRunes = append(ipRunes, r)
		}
	}
	for i, o := range c.Driver.Map(ipReq) {
		want := "0"
		if isPrintModel(ipRunes[i]) {
			want = "1"
		}
		if o != want {
			c.Report("correspondence", "isprint-model-differs", fmt.Sprintf("Lean isPrintDefault(U+%04X)=%s, Go mirror=%s", ipRunes[i], o, want), nil)
			break
		}
	}
	for r := rune(0); r <= 0xFF; r++ {
		if !InPrintDomain(r) {
			c.Report("correspondence", "isprint-model-differs", fmt.Sprintf("isPrintDefault must be exact on Latin-1: U+%04X", r), nil)
		}
	}
	c.Ev.Extra["isprint_domain"] = map[string]any{"runes_outside_domain": disagree, "first": firstBad, "model_table_checked": len(ipReq)}

	// 1. strconv.Quote against goQuote on byte strings of the domain
	{
		var reqs, ins []string
		add := func(b []byte) {
			if textInDomain(string(b)) {
				ins = append(ins, string(b))
				reqs = append(reqs, "quote "+impl.HexW(b))
			}
		}
		for b := 0; b < 256; b++ {
			add([]byte{byte(b)})
			add([]byte{'a', byte(b), 'b'})
		}
		for r := rune(0x80); r < 0x3100; r += 3 {
			add([]byte(string(r)))
		}
		for _, r := range []rune{0xD7FF, 0xE000, 0xF8FF, 0xF900, 0xFEFF, 0xFFF9, 0xFFFC, 0xFFFD, 0xFFFE, 0xFFFF, 0x10000, 0x1F600, 0xE0001, 0xF0000, 0x10FFFF} {
			add([]byte("x" + string(r) + "y"))
		}
		n := c.Pick(20000, 200000)
		for i := 0; i < n; i++ {
			add(GenBytes(c.R, 24))
		}
		out := c.Driver.Map(reqs)
		for i := range out {
			want := impl.Call("goquote", []string{impl.HexW([]byte(ins[i]))})
			c.Ev.Traces++
			if out[i] != want {
				c.Report("correspondence", "quote-model-differs", fmt.Sprintf("strconv.Quote(%q)=%s, goQuote model=%s", ins[i], unhexS(want), unhexS(out[i])),
					map[string]any{"op": "quote", "input_hex": impl.HexW([]byte(ins[i]))})
			}
		}
		c.Ev.Count("quote_cases", len(reqs))
		// the repaired quoting: the REAL lexer reads gqlQuote(bs) back as bs, for ARBITRARY bytes bs
		// (theorem C12_quote_roundtrip_bytes; every other case is made well-formed UTF-8)
		var greqs []string
		var gins [][]byte
		for i := 0; i < n/2; i++ {
			b := GenBytes(c.R, 24)
			if i%2 == 1 && !utf8.Valid(b) {
				b = []byte(strings.ToValidUTF8(string(b), "?"))
			}
			gins = append(gins, b)
			greqs = append(greqs, "gqlquote "+impl.HexW(b))
		}
		gout := c.Driver.Map(greqs)
		for i := range gout {
			if ref := quoteGql(string(gins[i])); impl.HexW([]byte(ref)) != gout[i] {
				c.Report("correspondence", "gqlquote-model-differs", fmt.Sprintf("gqlQuote(%q): Lean %s, Go reference %q", gins[i], unhexS(gout[i]), ref), nil)
			}
			got := impl.Call("lexstr", []string{gout[i]})
			if got != "19,"+impl.HexW(gins[i]) { // lexer.String == 19? checked below by the self-test value
				c.Report("spec", "gqlquote-not-read-back", fmt.Sprintf("lexing gqlQuote(%q) = %s gives %s", gins[i], unhexS(gout[i]), got), nil)
			}
		}
		c.Ev.Count("gqlquote_cases", len(greqs))
	}

	// 2. documents
	stats := map[string]*fmtStats{}
	for t := range fmtKinds {
		stats[t] = &fmtStats{rt: map[string]int{}, rtTame: map[string]int{}}
	}
	qs, ss := RepoGraphQLInputs()
	c.runFormatBatch(fmtKinds["q"], qs, stats["q"])
	c.runFormatBatch(fmtKinds["sd"], ss, stats["sd"])
	c.runFormatBatch(fmtKinds["s"], ss, stats["s"])
	c.runFormatBatch(fmtKinds["q"], fmtMinimalQ, stats["q"])
	c.runFormatBatch(fmtKinds["sd"], fmtMinimalSD, stats["sd"])
	c.runFormatBatch(fmtKinds["s"], fmtMinimalS, stats["s"])
	corpus := len(qs) + 2*len(ss)

	total := c.Pick(12000, 120000)
	if v := os.Getenv("VERIF_FORMAT_DOCS"); v != "" {
		total, _ = strconv.Atoi(v)
	}
	batch := 6000
	for done := 0; done < total; done += batch {
		var q, sd, s []string
		var tame []bool
		for i := 0; i < batch/3; i++ {
			r := c.R.Fork(uint64(done + i))
			// every other document avoids the triggers of the known deviations, so that whatever
			// still fails there is something else
			t := i%2 == 1
			tame = append(tame, t)
			q = append(q, GenQueryText(r, i%5 == 0, i%3 == 0, t))
			sd = append(sd, GenSchemaDocText(r, i%5 == 0, i%3 == 0, t))
			s = append(s, GenLoadableSchemaText(r, i%3 == 0, t))
		}
		c.runFormatBatch(fmtKinds["q"], q, stats["q"], tame...)
		c.runFormatBatch(fmtKinds["sd"], sd, stats["sd"], tame...)
		c.runFormatBatch(fmtKinds["s"], s, stats["s"], tame...)
	}

	// report the direct-check findings (shortest input per signature), in a stable order
	sigs := make([]string, 0, len(fmtFindings))
	for s := range fmtFindings {
		sigs = append(sigs, s)
	}
	sort.Strings(sigs)
	for _, s := range sigs {
		f := fmtFindings[s]
		c.Report("spec", s, f.what, f.replay)
	}
	for t, st := range stats {
		c.Ev.Extra["format_"+t] = map[string]any{"documents": st.docs, "skipped_not_parsing_or_loading": st.skipped,
			"configs_compared_equal": st.compared, "out_of_isprint_domain": st.outOfDomain, "roundtrip_cases": st.rtCases,
			"roundtrip_ok": st.rtOK, "roundtrip_findings": st.rt, "roundtrip_findings_in_tame_documents": st.rtTame}
		fmt.Printf("format %-2s: documents=%d skipped=%d model-equal(config cases)=%d out-of-domain=%d roundtrip ok=%d/%d\n",
			t, st.docs, st.skipped, st.compared, st.outOfDomain, st.rtOK, st.rtCases)
		keys := make([]string, 0, len(st.rt))
		for k := range st.rt {
			keys = append(keys, k)
		}
		sort.Strings(keys)
		for _, k := range keys {
			fmt.Printf("    %-70s %d (in tame documents: %d)\n", k, st.rt[k], st.rtTame[k])
		}
	}
	c.Ev.Extra["corpus_documents"] = corpus
	c.Ev.Rule = "a case is one (document, configuration) pair; distinct = distinct source texts"
}

// minimal inputs for the known deviations (DESIGN §7 R12a, R12b, R13a–R13e) and neighbours
var fmtMinimalQ = []string{
	// a variable inside the arguments of a directive, directly and nested, at every directive position of the grammar
	"query Q($v: Boolean) @d(a: $v) { f }",
	"query ($v: Boolean) { f @d(a: [$v]) }",
	"{ ...F @d(a: {k: $v}) }",
	"{ ... on T @d(a: $v) { f } ... @d(a: [1, {k: [$v]}]) { g } }",
	"fragment F on T @d(a: $v) { f }",
	"fragment F on T @tag(with: {flags: [true, $v]}) @e { id }",
	"fragment F($w: Int = 1) on T @d(a: [$w, $v]) { f(x: $w) @e(b: $w) }",
	"subscription S @d(a: $v) { f } mutation M @d(a: {k: $v}) { g }",
	`{ f(a: "\u0007") }`,                  // R12a \a
	`{ f(a: "\u000b") }`,                  // R12a \v
	`{ f(a: "\u007f") }`,                  // R12a \x7f
	`{ f(a: "\u0000") }`,                  // R12a \x00
	"{ f(a: \"\xff\") }",                  // R12a \xff (invalid UTF-8 kept raw by the lexer)
	"{a(s:\"\t\xff\")}",                   // raw TAB is written as \t: FF after an escape is kept raw too (C12_string_value_illformed_roundtrip)
	"{a(s:\"\x7f\xff\\n\xc3(\xe2\x82\")}", // DEL -> \u007f, ill-formed bytes and truncated sequences after escapes
	"{ f(a: \"\U000e0001\") }",            // R12a \U000e0001
	`{ f(a: "\u0085") }`,                  // \u0085: fine
	`query ($a: Int = 1 @x) { f }`,        // R12b
	`query Q($a: Int @x(y: 2)) { f }`,     // R12b
	`fragment F($a: Int @x) on T { f }`,   // R12b
	"{ f(a: \"\u0378\") }",                // unassigned rune: outside the isPrint domain of the model (counted, not compared)
	`{ a: a }`, `{ f(a: """b""") }`, `{ f(a: """a "q" \ b""") }`,
}

var fmtMinimalSD = []string{
	`"a \"\"\" b" type T { f: Int }`,                       // R13a
	`"  lead\n" type T { f: Int }`,                         // R13b
	`" " type T { f: Int }`,                                // R13b (only blanks)
	`"x\n" type T { f: Int }`,                              // R13b trailing newline
	`"\\\"\"\"" type T { f: Int }`,                         // description \""" — printed raw it reads back as """
	`"a\rb" type T { f: Int }`,                             // CR in a description
	`"back\\" type T { f: Int }`,                           // trailing backslash before the closing quotes
	`"q\"" type T { f: Int }`,                              // trailing quote
	`type T { __a: Int b: Int }`,                           // R13d
	`schema { query: Q } schema { mutation: M }`,           // merged
	`"d1" schema { query: Q } "d2" schema { mutation: M }`, // descriptions concatenated
	`type T { f(a: Int = "\u0007"): Int }`,                 // R12a in a schema
	`directive @d("x" a: Int "y" b: Int) on FIELD`,
	`type T { f("d" a: Int b: Int): Int }`, // with omitDescription the comma after a described argument is dropped: not a fixpoint
	`type T { __a: Int }`,                  // R13d, all fields dropped: `type T {` `}` does not parse
	`extend schema @a`, `extend schema { query: Q }`, `type T`, `type T implements A & B @d { f: Int }`,
}

var fmtMinimalS = []string{
	`schema { query: Query } type Query { f: Int } type Mutation { g: Int }`,     // R13c
	`schema { query: Query } type Query { f: Int } type Subscription { g: Int }`, // R13c
	`"""d""" schema { query: Q } type Q { f: Int }`,                              // R13e
	`"""d""" schema { query: Query } type Query { f: Int }`,                      // R13e (no block printed at all)
	`type Query { f: Int }`,
	`schema { query: Query mutation: M } type Query { f: Int } type M { g: Int }`,       // block printed without `query: Query`: the reloaded schema has no query root
	`schema { query: Q mutation: Mutation } type Q { f: Int } type Mutation { g: Int }`, // block printed without `mutation: Mutation`: the reloaded schema has no mutation root
	`schema { query: Query subscription: S } type Query { f: Int } type S { g: Int } type Mutation { h: Int }`,
	`"a \"\"\" b" type Query { f: Int }`,                                      // R13a
	`"  lead\n" type Query { f: Int }`,                                        // R13b
	`directive @d(s: String = "\u0007") on OBJECT type Query @d { f: Int }`,   // R12a
	`directive @d on SCHEMA schema @d { query: Query } type Query { f: Int }`, // directives, default roots
	`directive @d on SCHEMA type Query { f: Int } extend schema @d`,
	`type Query { f: Int } extend type Query { g: Int }`,
	// a query root that is not an object type: REJECTED by the loader since the repair "a root operation type must be
	// an object type" (before it the root got __schema/__type, which the formatter hides but still brackets)
	`scalar Query`,
	`enum Query { A }`,
	`type A { x: Int } union Query = A`,
	// types named like default roots that are not roots and not objects (the block must be printed: inference
	// from default names would otherwise pick them up and the root-kind rule would reject the text)
	`schema { query: Query } type Query { f: Int } scalar Mutation`,
	`schema { query: Query } type Query { f: Int } enum Subscription { A }`,
	`schema { query: Query } type Query { f: Int } input Mutation { a: Int } interface Subscription { a: Int }`,
	`schema { query: Q } type Q { f: Int } union Query = Q`,
	`schema { query: Query mutation: M } type Query { f: Int } type M { g: Int } scalar Subscription`,
	`type Query { f(a: Int = -0, b: Float = -0.0, c: [Int] = [-0]): Int @d(x: -0) } directive @d(x: Int = -0) on FIELD_DEFINITION`,
	// an extension of a type of the prelude: FormatSchema skips built-in types altogether
	`type Query { a: Int } extend type __Type { extra: Int }`,
	`type Query { a: Int } directive @x on SCALAR extend scalar String @x`,
}

func init() {
	Checks["X-format"] = checkXFormat
	// C12: executable documents (entry point tag q:); C13: schema documents (sd:) and loaded schemas (s:)
	Checks["C12"] = func(c *Ctx) {
		c.SigFilter = func(sig string) bool { return !strings.HasPrefix(sig, "sd:") && !strings.HasPrefix(sig, "s:") }
		checkXFormat(c)
	}
	Checks["C13"] = func(c *Ctx) {
		c.SigFilter = func(sig string) bool { return !strings.HasPrefix(sig, "q:") }
		checkXFormat(c)
	}
}

var _ = rng.New
