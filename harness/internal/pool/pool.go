// Package pool runs a line-protocol subprocess pool (used both for the Lean driver and for
// the vrun workers that execute the real library): one request line in, one reply line out.
// A process that dies or exceeds the deadline is restarted; the request that killed it gets
// the reply "CRASH:<hex of stderr tail>" or "TIMEOUT".
package pool

import (
	"bufio"
	"bytes"
	"encoding/hex"
	"io"
	"os"
	"os/exec"
	"strings"
	"sync"
	"time"
)

type proc struct {
	cmd    *exec.Cmd
	in     io.WriteCloser
	lines  chan string
	stderr *tail
}

type tail struct {
	mu  sync.Mutex
	buf []byte
}

func (t *tail) Write(p []byte) (int, error) {
	t.mu.Lock()
	defer t.mu.Unlock()
	t.buf = append(t.buf, p...)
	if len(t.buf) > 4096 {
		// keep the head (panic message / fatal error line) and the tail
		t.buf = append(t.buf[:2048:2048], t.buf[len(t.buf)-2048:]...)
	}
	return len(p), nil
}
func (t *tail) String() string { t.mu.Lock(); defer t.mu.Unlock(); return string(t.buf) }

type Pool struct {
	Argv    []string
	Env     []string
	N       int
	Timeout time.Duration // per request
	Chunk   int
	mu      sync.Mutex
	Crashes int
	// MaxCrashes (0 = 40): once this many requests have killed or hung a process, the remaining
	// requests are answered "SKIPPED" at once — the violation is established, the run must end.
	MaxCrashes int
}

func (p *Pool) giveUp() bool {
	p.mu.Lock()
	defer p.mu.Unlock()
	m := p.MaxCrashes
	if m == 0 {
		m = 40
	}
	return p.Crashes >= m
}

func New(argv []string, n int, timeout time.Duration) *Pool {
	return &Pool{Argv: argv, N: n, Timeout: timeout, Chunk: 256}
}

func (p *Pool) start() (*proc, error) {
	cmd := exec.Command(p.Argv[0], p.Argv[1:]...)
	cmd.Env = append(os.Environ(), p.Env...)
	in, err := cmd.StdinPipe()
	if err != nil {
		return nil, err
	}
	out, err := cmd.StdoutPipe()
	if err != nil {
		return nil, err
	}
	t := &tail{}
	cmd.Stderr = t
	if err := cmd.Start(); err != nil {
		return nil, err
	}
	pr := &proc{cmd: cmd, in: in, lines: make(chan string, 1024), stderr: t}
	go func() {
		rd := bufio.NewReaderSize(out, 1<<20)
		for {
			s, err := rd.ReadString('\n')
			if len(s) > 0 && strings.HasSuffix(s, "\n") {
				pr.lines <- strings.TrimRight(s, "\r\n")
			}
			if err != nil {
				close(pr.lines)
				return
			}
		}
	}()
	return pr, nil
}

func (pr *proc) kill() {
	if pr == nil {
		return
	}
	pr.in.Close()
	if pr.cmd.Process != nil {
		pr.cmd.Process.Kill()
	}
	go func() {
		for range pr.lines {
		}
	}()
	pr.cmd.Wait()
}

// Map sends every request and returns the replies in order.
func (p *Pool) Map(reqs []string) []string {
	out := make([]string, len(reqs))
	type job struct{ lo, hi int }
	chunk := p.Chunk
	if chunk <= 0 {
		chunk = 256
	}
	if len(reqs) < chunk*p.N {
		chunk = len(reqs)/p.N + 1
	}
	jobs := make(chan job, len(reqs)/chunk+2)
	for lo := 0; lo < len(reqs); lo += chunk {
		hi := lo + chunk
		if hi > len(reqs) {
			hi = len(reqs)
		}
		jobs <- job{lo, hi}
	}
	close(jobs)
	var wg sync.WaitGroup
	for w := 0; w < p.N; w++ {
		wg.Add(1)
		go func() {
			defer wg.Done()
			var pr *proc
			defer func() { pr.kill() }()
			for j := range jobs {
				i := j.lo
				for i < j.hi {
					if p.giveUp() {
						for ; i < j.hi; i++ {
							out[i] = "SKIPPED"
						}
						break
					}
					if pr == nil {
						var err error
						pr, err = p.start()
						if err != nil {
							for ; i < j.hi; i++ {
								out[i] = "CRASH:" + hex.EncodeToString([]byte("cannot start: "+err.Error()))
							}
							break
						}
					}
					// write the remaining requests of this chunk in the background
					var buf bytes.Buffer
					for k := i; k < j.hi; k++ {
						buf.WriteString(reqs[k])
						buf.WriteByte('\n')
					}
					go func(w io.Writer, b []byte) { w.Write(b) }(pr.in, buf.Bytes())
					failed := false
					for i < j.hi {
						timer := time.NewTimer(p.Timeout)
						select {
						case s, ok := <-pr.lines:
							timer.Stop()
							if !ok {
								time.Sleep(20 * time.Millisecond)
								out[i] = "CRASH:" + hex.EncodeToString([]byte(pr.stderr.String()))
								failed = true
							} else {
								out[i] = s
								i++
							}
						case <-timer.C:
							out[i] = "TIMEOUT"
							failed = true
						}
						if failed {
							break
						}
					}
					if failed {
						p.mu.Lock()
						p.Crashes++
						p.mu.Unlock()
						pr.kill()
						pr = nil
						i++ // skip the request that killed the process
					}
				}
			}
		}()
	}
	wg.Wait()
	return out
}

// One sends a single request to a fresh process.
func (p *Pool) One(req string) string {
	q := *p
	q.N = 1
	return q.Map([]string{req})[0]
}
