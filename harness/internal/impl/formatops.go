package impl

// Formatter ops: run the REAL formatter (package formatter of the library under test).
//
//	fmtq   <cfgs> <hex query text>        parse, FormatQueryDocument (comments off)      → <hex out>[;<hex out>…]
//	fmtqc  <cfgs> <hex query text>        same with WithComments()
//	fmtsd  <cfgs> <hex schema text>       parse, FormatSchemaDocument
//	fmtsdc <cfgs> <hex schema text>       same with WithComments()
//	fmts   <cfgs> <hex schema text>…      load on top of the prelude, FormatSchema
//	fmtsc  <cfgs> <hex schema text>…      same with WithComments()
//	sxq / sxsd <hex text>                 S-expression of the parsed tree (source index 0 = built-in source)
//	sxs <hex text>…                       S-expression of the loaded schema
//	rtq / rtsd <cfgs> <hex text>          direct round-trip check per config: ok | reparse-fails:<label>:<hex err>:<hex out> |
//	                                      tree-differs:<label>:<hex out> | not-a-fixpoint:<hex out>:<hex out2>
//	rts <cfgs> <hex text>…                load → FormatSchema → load → compare, fixpoint
//	goquote <hex>                         strconv.Quote
//	lexstr <hex>                          lex the text, reply the value of the first token: <kind>,<hex value> or E…
//
// <cfgs> = <cfg>[;<cfg>…], <cfg> = <hex indent>,<builtin 0/1>,<omitDescription 0/1>,<compacted 0/1>.
// A parse/load error of the INPUT text replies "E,…" (the case is then not a formatter case).

import (
	"encoding/json"
	"bytes"
	"sort"
	"strconv"
	"strings"

	"github.com/vektah/gqlparser/v2/ast"
	"github.com/vektah/gqlparser/v2/formatter"
	"github.com/vektah/gqlparser/v2/gqlerror"
	"github.com/vektah/gqlparser/v2/lexer"
	"github.com/vektah/gqlparser/v2/parser"
	"github.com/vektah/gqlparser/v2/validator"
)

type FmtCfg struct {
	Indent                              string
	Builtin, OmitDescription, Compacted bool
}

func ParseFmtCfgs(s string) []FmtCfg {
	var out []FmtCfg
	for _, c := range strings.Split(s, ";") {
		p := strings.Split(c, ",")
		if len(p) != 4 {
			panic("bad cfg " + c)
		}
		ind, _ := UnhexW(p[0])
		out = append(out, FmtCfg{string(ind), p[1] == "1", p[2] == "1", p[3] == "1"})
	}
	return out
}

func (c FmtCfg) String() string {
	b := func(x bool) string {
		if x {
			return "1"
		}
		return "0"
	}
	return HexW([]byte(c.Indent)) + "," + b(c.Builtin) + "," + b(c.OmitDescription) + "," + b(c.Compacted)
}

func (c FmtCfg) opts(comments bool) []formatter.FormatterOption {
	o := []formatter.FormatterOption{formatter.WithIndent(c.Indent)}
	if c.Builtin {
		o = append(o, formatter.WithBuiltin())
	}
	if c.OmitDescription {
		o = append(o, formatter.WithoutDescription())
	}
	if c.Compacted {
		o = append(o, formatter.WithCompacted())
	}
	if comments {
		o = append(o, formatter.WithComments())
	}
	return o
}

func FormatQuery(c FmtCfg, comments bool, d *ast.QueryDocument) string {
	var buf bytes.Buffer
	formatter.NewFormatter(&buf, c.opts(comments)...).FormatQueryDocument(d)
	return buf.String()
}

func FormatSchemaDoc(c FmtCfg, comments bool, d *ast.SchemaDocument) string {
	var buf bytes.Buffer
	formatter.NewFormatter(&buf, c.opts(comments)...).FormatSchemaDocument(d)
	return buf.String()
}

func FormatSchema(c FmtCfg, comments bool, s *ast.Schema) string {
	var buf bytes.Buffer
	formatter.NewFormatter(&buf, c.opts(comments)...).FormatSchema(s)
	return buf.String()
}

// fmtSrc numbers built-in sources 0 and every other source 1 (what the formatter model reads
// as `Position.Src.BuiltIn`).
func fmtSrc(s *ast.Source) int {
	if s != nil && s.BuiltIn {
		return 0
	}
	return 1
}

func texts(a []string) []string {
	out := make([]string, len(a))
	for i, h := range a {
		b, _ := UnhexW(h)
		out[i] = string(b)
	}
	return out
}

func parseQ(text string) (*ast.QueryDocument, error) {
	return parser.ParseQuery(&ast.Source{Name: "s0", Input: text})
}

func parseS(text string) (*ast.SchemaDocument, error) {
	return parser.ParseSchema(&ast.Source{Name: "s0", Input: text})
}

// identify String and Block value kinds in a canonical S-expression
func sxIdentifyStrings(s string) string { return strings.ReplaceAll(s, "(V 4 ", "(V 3 ") }

func sxNoPosQ(d *ast.QueryDocument) string {
	s := Sx{NoPos: true}
	s.QueryDoc(d)
	return sxIdentifyStrings(s.String())
}

func sxNoPosSD(d *ast.SchemaDocument) string {
	s := Sx{NoPos: true}
	s.SchemaDoc(d)
	return sxIdentifyStrings(s.String())
}

func sxNoPosS(d *ast.Schema) string {
	// the order inside PossibleTypes / Implements follows the definition order of the source,
	// which FormatSchema replaces by the alphabetical order: compare them as sets
	for _, m := range []map[string][]*ast.Definition{d.PossibleTypes, d.Implements} {
		for _, l := range m {
			sort.SliceStable(l, func(i, j int) bool { return l[i] != nil && l[j] != nil && l[i].Name < l[j].Name })
		}
	}
	s := Sx{NoPos: true}
	s.LoadedSchema(d)
	// the BuiltIn flag of a definition is a property of the source, not of the type system
	return strings.ReplaceAll(sxIdentifyStrings(s.String()), "(p 0 0 0 0 0) 1)", "(p 0 0 0 0 0) 0)")
}

func clearArgDescs(as ast.ArgumentDefinitionList) {
	for _, a := range as {
		a.Description = ""
	}
}

func clearDefDescs(ds ast.DefinitionList) {
	for _, d := range ds {
		d.Description = ""
		for _, f := range d.Fields {
			f.Description = ""
			clearArgDescs(f.Arguments)
		}
		for _, e := range d.EnumValues {
			e.Description = ""
		}
	}
}

// NormalizeSchemaDoc puts a parsed schema document into the form that FormatSchemaDocument can
// preserve at best (DESIGN C13 reading choice): all `schema` definitions merged into one, all
// schema extensions merged into one; descriptions erased when they are switched off.
func NormalizeSchemaDoc(d *ast.SchemaDocument, omitDesc bool) {
	merge := func(l ast.SchemaDefinitionList) ast.SchemaDefinitionList {
		if len(l) == 0 {
			return l
		}
		m := &ast.SchemaDefinition{}
		for _, x := range l {
			m.Description += x.Description
			m.Directives = append(m.Directives, x.Directives...)
			m.OperationTypes = append(m.OperationTypes, x.OperationTypes...)
		}
		return ast.SchemaDefinitionList{m}
	}
	d.Schema = merge(d.Schema)
	d.SchemaExtension = merge(d.SchemaExtension)
	if omitDesc {
		for _, s := range d.Schema {
			s.Description = ""
		}
		for _, s := range d.SchemaExtension {
			s.Description = ""
		}
		for _, x := range d.Directives {
			x.Description = ""
			clearArgDescs(x.Arguments)
		}
		clearDefDescs(d.Definitions)
		clearDefDescs(d.Extensions)
	}
}

func clearSchemaDescs(s *ast.Schema) {
	s.Description = ""
	for _, d := range s.Types {
		clearDefDescs(ast.DefinitionList{d})
	}
	for _, x := range s.Directives {
		x.Description = ""
		clearArgDescs(x.Arguments)
	}
}

// sxDiffLabel names where two canonical S-expressions first differ: the two innermost open tags.
func sxDiffLabel(a, b string) string {
	i := 0
	for i < len(a) && i < len(b) && a[i] == b[i] {
		i++
	}
	var stack []string
	var items []int // number of items started so far in each open list
	for j := 0; j < i && j < len(a); j++ {
		switch a[j] {
		case '(':
			if len(items) > 0 {
				items[len(items)-1]++
			}
			k := j + 1
			for k < len(a) && a[k] != ' ' && a[k] != ')' && a[k] != '(' {
				k++
			}
			stack = append(stack, a[j+1:k])
			items = append(items, 0)
			if k > j+1 {
				items[len(items)-1] = 1
				j = k - 1
			}
		case ')':
			if len(stack) > 0 {
				stack = stack[:len(stack)-1]
				items = items[:len(items)-1]
			}
		case ' ':
			if j+1 < len(a) && a[j+1] != '(' && len(items) > 0 {
				items[len(items)-1]++
			}
		}
	}
	var tags []string
	for j := len(stack) - 1; j >= 0 && len(tags) < 2; j-- {
		if stack[j] != "" && stack[j][0] >= 'A' && stack[j][0] <= 'Z' {
			tags = append([]string{stack[j]}, tags...)
		}
	}
	label := strings.Join(tags, "-")
	// directly inside the loaded-schema node: name the component
	for j := len(stack) - 1; j >= 0; j-- {
		if stack[j] == "" || stack[j][0] < 'A' || stack[j][0] > 'Z' {
			continue
		}
		if stack[j] == "SCHEMA" && label == "SCHEMA" {
			names := []string{"", "tag", "query-root", "mutation-root", "subscription-root", "schema-directives", "types", "directives", "possibleTypes", "implements", "description"}
			if n := items[j]; n < len(names) {
				label += "." + names[n]
			}
		}
		break
	}
	return label
}

// errLabel: a stable short label of an error: the message up to the first quotation mark,
// letters only (e.g. "Unexpected <Invalid>" → Unexpected_Invalid).
func errLabel(err error) string {
	msg := err.Error()
	if ge, ok := err.(*gqlerror.Error); ok {
		msg = ge.Message
	}
	if i := strings.IndexByte(msg, '"'); i >= 0 {
		msg = msg[:i]
	}
	var sb strings.Builder
	for _, r := range msg {
		switch {
		case r >= 'a' && r <= 'z' || r >= 'A' && r <= 'Z':
			sb.WriteRune(r)
		case r == ' ' && sb.Len() > 0 && !strings.HasSuffix(sb.String(), "_"):
			sb.WriteByte('_')
		}
		if sb.Len() >= 48 {
			break
		}
	}
	return strings.Trim(sb.String(), "_")
}

func joinCfgs(a []string, cfgs string, f func(c FmtCfg) string) string {
	var out []string
	for _, c := range ParseFmtCfgs(cfgs) {
		out = append(out, f(c))
	}
	return strings.Join(out, ";")
}

func hx(s string) string { return HexW([]byte(s)) }

func init() {
	for _, comments := range []bool{false, true} {
		comments := comments
		suffix := ""
		if comments {
			suffix = "c"
		}
		Ops["fmtq"+suffix] = func(a []string) string {
			d, err := parseQ(texts(a[1:])[0])
			if err != nil {
				return ErrObs(err)
			}
			return joinCfgs(a, a[0], func(c FmtCfg) string { return hx(FormatQuery(c, comments, d)) })
		}
		Ops["fmtsd"+suffix] = func(a []string) string {
			d, err := parseS(texts(a[1:])[0])
			if err != nil {
				return ErrObs(err)
			}
			return joinCfgs(a, a[0], func(c FmtCfg) string { return hx(FormatSchemaDoc(c, comments, d)) })
		}
		Ops["fmts"+suffix] = func(a []string) string {
			s, err := LoadSchema(texts(a[1:])...)
			if err != nil {
				return ErrObsFull(err)
			}
			return joinCfgs(a, a[0], func(c FmtCfg) string { return hx(FormatSchema(c, comments, s)) })
		}
	}
	Ops["sxq"] = func(a []string) string {
		d, err := parseQ(texts(a)[0])
		if err != nil {
			return ErrObs(err)
		}
		s := Sx{Src: fmtSrc}
		s.QueryDoc(d)
		return s.String()
	}
	Ops["sxsd"] = func(a []string) string {
		d, err := parseS(texts(a)[0])
		if err != nil {
			return ErrObs(err)
		}
		s := Sx{Src: fmtSrc}
		s.SchemaDoc(d)
		return s.String()
	}
	Ops["sxs"] = func(a []string) string {
		sc, err := LoadSchema(texts(a)...)
		if err != nil {
			return ErrObsFull(err)
		}
		s := Sx{Src: fmtSrc}
		s.LoadedSchema(sc)
		return s.String()
	}
	Ops["rtq"] = func(a []string) string {
		text := texts(a[1:])[0]
		if _, err := parseQ(text); err != nil {
			return ErrObs(err)
		}
		return joinCfgs(a, a[0], func(c FmtCfg) string {
			d, _ := parseQ(text)
			out := FormatQuery(c, false, d)
			d2, err := parseQ(out)
			if err != nil {
				return "reparse-fails:" + errLabel(err) + ":" + hx(err.Error()) + ":" + hx(out)
			}
			if a, b := sxNoPosQ(d), sxNoPosQ(d2); a != b {
				return "tree-differs:" + sxDiffLabel(a, b) + ":" + hx(out)
			}
			if out2 := FormatQuery(c, false, d2); out2 != out {
				return "not-a-fixpoint:" + hx(out) + ":" + hx(out2)
			}
			return "ok"
		})
	}
	// rtqjson <cfgs> <hex JSON text of an executable document>: the tree is built WITHOUT the parser
	// (encoding/json), then formatted, parsed and compared as in rtq — the way a tree generator meets
	// the formatter when the parser itself refuses a text of the grammar
	Ops["rtqjson"] = func(a []string) string {
		text := texts(a[1:])[0]
		build := func() (*ast.QueryDocument, error) {
			d := &ast.QueryDocument{}
			err := json.Unmarshal([]byte(text), d)
			return d, err
		}
		if _, err := build(); err != nil {
			return "E,0,0," + hx(err.Error())
		}
		return joinCfgs(a, a[0], func(c FmtCfg) string {
			d, _ := build()
			out := FormatQuery(c, false, d)
			d2, err := parseQ(out)
			if err != nil {
				return "reparse-fails:" + errLabel(err) + ":" + hx(err.Error()) + ":" + hx(out)
			}
			if a, b := sxNoPosQ(d), sxNoPosQ(d2); a != b {
				return "tree-differs:" + sxDiffLabel(a, b) + ":" + hx(out)
			}
			return "ok"
		})
	}
	Ops["rtsd"] = func(a []string) string {
		text := texts(a[1:])[0]
		if _, err := parseS(text); err != nil {
			return ErrObs(err)
		}
		return joinCfgs(a, a[0], func(c FmtCfg) string {
			d, _ := parseS(text)
			out := FormatSchemaDoc(c, false, d)
			d2, err := parseS(out)
			if err != nil {
				return "reparse-fails:" + errLabel(err) + ":" + hx(err.Error()) + ":" + hx(out)
			}
			out2 := FormatSchemaDoc(c, false, d2)
			NormalizeSchemaDoc(d, c.OmitDescription)
			NormalizeSchemaDoc(d2, c.OmitDescription)
			if a, b := sxNoPosSD(d), sxNoPosSD(d2); a != b {
				return "tree-differs:" + sxDiffLabel(a, b) + ":" + hx(out)
			}
			if out2 != out {
				return "not-a-fixpoint:" + hx(out) + ":" + hx(out2)
			}
			return "ok"
		})
	}
	Ops["rts"] = func(a []string) string {
		ts := texts(a[1:])
		if _, err := LoadSchema(ts...); err != nil {
			return ErrObsFull(err)
		}
		return joinCfgs(a, a[0], func(c FmtCfg) string {
			s, _ := LoadSchema(ts...)
			out := FormatSchema(c, false, s)
			reload := func(text string) (*ast.Schema, error) {
				if c.Builtin {
					// the output contains the prelude: load it stand-alone
					return validator.LoadSchema(&ast.Source{Name: "out", Input: text})
				}
				return LoadSchema(text)
			}
			s2, err := reload(out)
			if err != nil && c.Builtin {
				return "builtin-not-reloadable:" + errLabel(err) + ":" + hx(err.Error()) + ":" + hx(out)
			}
			if err != nil {
				return "reparse-fails:" + errLabel(err) + ":" + hx(err.Error()) + ":" + hx(out)
			}
			out2 := FormatSchema(c, false, s2)
			if c.OmitDescription {
				clearSchemaDescs(s)
				clearSchemaDescs(s2)
			}
			if a, b := sxNoPosS(s), sxNoPosS(s2); a != b {
				return "tree-differs:" + sxDiffLabel(a, b) + ":" + hx(out)
			}
			if out2 != out {
				return "not-a-fixpoint:" + hx(out) + ":" + hx(out2)
			}
			return "ok"
		})
	}
	Ops["goquote"] = func(a []string) string { return hx(strconv.Quote(texts(a)[0])) }
	Ops["lexstr"] = func(a []string) string {
		lx := lexer.New(&ast.Source{Name: "s0", Input: texts(a)[0]})
		t, err := lx.ReadToken()
		if err != nil {
			return ErrObs(err)
		}
		return strconv.Itoa(int(t.Kind)) + "," + hx(t.Value)
	}
}
