package impl

import (
	"fmt"
	"encoding/hex"
	gqlparser "github.com/vektah/gqlparser/v2"
	"sort"
	"strconv"
	"strings"

	"github.com/vektah/gqlparser/v2/ast"
	"github.com/vektah/gqlparser/v2/gqlerror"
	"github.com/vektah/gqlparser/v2/parser"
	"github.com/vektah/gqlparser/v2/validator"
)

// LoadSources: the prelude as source 0, then the user texts as sources 1… (names u1, u2, …).
// The prelude source is copied so that nothing shared is handed to the library.
func LoadSources(texts []string) ([]*ast.Source, func(*ast.Source) int, map[string]int) {
	pre := *validator.Prelude
	srcs := []*ast.Source{&pre}
	for i, t := range texts {
		srcs = append(srcs, &ast.Source{Name: "u" + strconv.Itoa(i+1), Input: t})
	}
	byPtr := map[*ast.Source]int{}
	byName := map[string]int{}
	for i, s := range srcs {
		byPtr[s] = i
		byName[s.Name] = i
	}
	return srcs, func(s *ast.Source) int {
		if i, ok := byPtr[s]; ok {
			return i
		}
		return -1
	}, byName
}

// ErrObsSrc: E,<line>,<col>,<source index>,<hex message>; no position → E,0,0,-1,…
func ErrObsSrc(err error, byName map[string]int) string {
	ge, ok := err.(*gqlerror.Error)
	if !ok {
		return "E,0,0,-1," + HexW([]byte(err.Error()))
	}
	if len(ge.Locations) == 0 {
		return "E,0,0,-1," + HexW([]byte(ge.Message))
	}
	idx := -1
	if f, ok := ge.Extensions["file"].(string); ok {
		if i, ok := byName[f]; ok {
			idx = i
		}
	}
	return "E," + strconv.Itoa(ge.Locations[0].Line) + "," + strconv.Itoa(ge.Locations[0].Column) + "," + strconv.Itoa(idx) + "," + HexW([]byte(ge.Message))
}

func unhexAll(a []string) []string {
	texts := make([]string, len(a))
	for i, h := range a {
		b, _ := UnhexW(h)
		texts[i] = string(b)
	}
	return texts
}

// MergeDoc parses every source (prelude first) and merges them exactly as parser.ParseSchemas does.
func MergeDoc(texts []string) string {
	srcs, idx, byName := LoadSources(texts)
	sd, err := parser.ParseSchemas(srcs...)
	if err != nil {
		return ErrObsSrc(gqlerror.WrapIfUnwrapped(err), byName)
	}
	s := Sx{Src: idx}
	s.SchemaDoc(sd)
	return s.String()
}

// LoadDoc runs validator.LoadSchema on prelude + sources.
func LoadDoc(texts []string) string {
	srcs, idx, byName := LoadSources(texts)
	sc, err := validator.LoadSchema(srcs...)
	if err != nil {
		return ErrObsSrc(err, byName)
	}
	s := Sx{Src: idx}
	s.LoadedSchema(sc)
	return s.String()
}

func init() {
	// mergedoc <hex src>… : merged SchemaDocument (prelude = source 0) as S-expression, or the parse error
	Ops["mergedoc"] = func(a []string) string { return MergeDoc(unhexAll(a)) }
	// loaddoc <hex src>… : loaded schema (positions carry source indices) or E,<line>,<col>,<src>,<hex msg>
	Ops["loaddoc"] = func(a []string) string { return LoadDoc(unhexAll(a)) }
}

// LoadCanon: an order-insensitive dump of the loaded schema (no positions; types, fields, arguments,
// enum values, interfaces, union members, relation lists, directive lists all sorted), used to
// compare loads of the same definitions in different orders / partitions (C17).
func LoadCanon(texts []string) string {
	srcs, _, byName := LoadSources(texts)
	sc, err := validator.LoadSchema(srcs...)
	if err != nil {
		return ErrObsSrc(err, byName)
	}
	return CanonOfSchema(sc)
}

// LoadHistory: gqlparser.LoadSchema (the top-level entry point, with the library's own prelude
// source) on each source set in turn, in this one process; observations joined by ";;".
func LoadHistory(sets [][]string, builtinFirst bool) string {
	var out []string
	for _, texts := range sets {
		var srcs []*ast.Source
		byName := map[string]int{validator.Prelude.Name: 0}
		for i, t := range texts {
			// (builtinFirst: the caller marks its first source BuiltIn, as frameworks do for their own
			// directive files; that changes nothing about what is loaded)
			s := &ast.Source{Name: "u" + strconv.Itoa(i+1), Input: t, BuiltIn: builtinFirst && i == 0 && len(texts) > 1}
			srcs = append(srcs, s)
			byName[s.Name] = i + 1
		}
		var sc *ast.Schema
		var err error
		if len(out)%2 == 1 {
			// every other load goes through MustLoadSchema, which must be LoadSchema with a panic for an error
			sc, err = mustLoad(srcs)
		} else {
			sc, err = gqlparser.LoadSchema(srcs...)
		}
		if err != nil {
			out = append(out, ErrObsSrc(err, byName))
		} else {
			out = append(out, CanonOfSchema(sc))
		}
	}
	return strings.Join(out, ";;")
}

func mustLoad(srcs []*ast.Source) (sc *ast.Schema, err error) {
	defer func() {
		if r := recover(); r != nil {
			if e, ok := r.(error); ok {
				err = e
			} else {
				err = fmt.Errorf("%v", r)
			}
		}
	}()
	return gqlparser.MustLoadSchema(srcs...), nil
}

// CanonOfSchema: the order-insensitive dump of a loaded schema.
func CanonOfSchema(sc *ast.Schema) string {
	var sb strings.Builder
	root := func(tag string, d *ast.Definition) {
		if d != nil {
			sb.WriteString(tag + "=" + d.Name + ";")
		}
	}
	root("query", sc.Query)
	root("mutation", sc.Mutation)
	root("subscription", sc.Subscription)
	dirs := func(ds ast.DirectiveList) string {
		var xs []string
		for _, d := range ds {
			var as []string
			for _, a := range d.Arguments {
				as = append(as, a.Name+":"+a.Value.String())
			}
			sort.Strings(as)
			xs = append(xs, "@"+d.Name+"("+strings.Join(as, ",")+")")
		}
		sort.Strings(xs)
		return strings.Join(xs, "")
	}
	args := func(as ast.ArgumentDefinitionList) string {
		var xs []string
		for _, a := range as {
			dv := ""
			if a.DefaultValue != nil {
				dv = "=" + a.DefaultValue.String()
			}
			xs = append(xs, a.Name+":"+a.Type.String()+dv+dirs(a.Directives))
		}
		sort.Strings(xs)
		return "(" + strings.Join(xs, ",") + ")"
	}
	sb.WriteString("schemadirs=" + dirs(sc.SchemaDirectives) + ";desc=" + hex.EncodeToString([]byte(sc.Description)) + "\n")
	var tn []string
	for k := range sc.Types {
		tn = append(tn, k)
	}
	sort.Strings(tn)
	sorted := func(xs []string) string {
		ys := append([]string(nil), xs...)
		sort.Strings(ys)
		return strings.Join(ys, ",")
	}
	for _, k := range tn {
		d := sc.Types[k]
		sb.WriteString(string(d.Kind) + " " + k + " desc=" + hex.EncodeToString([]byte(d.Description)) + " impl=" + sorted(d.Interfaces) + " members=" + sorted(d.Types) + " " + dirs(d.Directives) + " {")
		var fs []string
		for _, f := range d.Fields {
			dv := ""
			if f.DefaultValue != nil {
				dv = "=" + f.DefaultValue.String()
			}
			fs = append(fs, f.Name+args(f.Arguments)+":"+f.Type.String()+dv+dirs(f.Directives))
		}
		sort.Strings(fs)
		sb.WriteString(strings.Join(fs, ";"))
		var evs []string
		for _, v := range d.EnumValues {
			evs = append(evs, v.Name+dirs(v.Directives))
		}
		sort.Strings(evs)
		sb.WriteString("|" + strings.Join(evs, ";") + "}\n")
	}
	var dn []string
	for k := range sc.Directives {
		dn = append(dn, k)
	}
	sort.Strings(dn)
	for _, k := range dn {
		d := sc.Directives[k]
		locs := make([]string, len(d.Locations))
		for i, l := range d.Locations {
			locs[i] = string(l)
		}
		rep := ""
		if d.IsRepeatable {
			rep = " repeatable"
		}
		sb.WriteString("directive @" + k + args(d.Arguments) + rep + " on " + sorted(locs) + "\n")
	}
	rel := func(tag string, m map[string][]*ast.Definition) {
		var ks []string
		for k := range m {
			ks = append(ks, k)
		}
		sort.Strings(ks)
		for _, k := range ks {
			var ns []string
			for _, d := range m[k] {
				if d == nil {
					ns = append(ns, "<nil>")
				} else {
					ns = append(ns, d.Name)
				}
			}
			sb.WriteString(tag + " " + k + "=" + sorted(ns) + "\n")
		}
	}
	rel("possible", sc.PossibleTypes)
	rel("implements", sc.Implements)
	return "C:" + hex.EncodeToString([]byte(sb.String()))
}

func init() {
	// loadcanon <hex src>… : order-insensitive dump of the loaded schema (hex) or E,…
	Ops["loadcanon"] = func(a []string) string { return LoadCanon(unhexAll(a)) }
	// loadlocs <hex src>… : EVERY location of the load error with the file the error names:
	// `<source index>|<line>:<col>;<line>:<col>…|<hex message>`, or OK
	Ops["loadlocs"] = func(a []string) string {
		srcs, _, byName := LoadSources(unhexAll(a))
		_, err := validator.LoadSchema(srcs...)
		if err == nil {
			return "OK"
		}
		ge, ok := err.(*gqlerror.Error)
		if !ok {
			return "PLAIN"
		}
		idx := -1
		if f, ok := ge.Extensions["file"].(string); ok {
			if i, ok := byName[f]; ok {
				idx = i
			}
		}
		var ls []string
		for _, l := range ge.Locations {
			ls = append(ls, strconv.Itoa(l.Line)+":"+strconv.Itoa(l.Column))
		}
		return strconv.Itoa(idx) + "|" + strings.Join(ls, ";") + "|" + HexW([]byte(ge.Message))
	}
	// loadcanonb: validator.LoadSchema(prelude, sources…) with the FIRST source of a multi-source set
	// marked BuiltIn (definitions of a built-in source are exempt from the reserved-name rule)
	Ops["loadcanonb"] = func(a []string) string {
		texts := unhexAll(a)
		srcs, _, byName := LoadSources(texts)
		if len(texts) > 1 {
			srcs[1].BuiltIn = true
		}
		sc, err := validator.LoadSchema(srcs...)
		if err != nil {
			return ErrObsSrc(err, byName)
		}
		return CanonOfSchema(sc)
	}
	// loadhist <hex src>… | <hex src>… | … : successive gqlparser.LoadSchema calls in one process
	Ops["loadhist"] = func(a []string) string {
		var sets [][]string
		cur := []string{}
		for _, w := range a {
			if w == "|" {
				sets = append(sets, unhexAll(cur))
				cur = []string{}
			} else {
				cur = append(cur, w)
			}
		}
		sets = append(sets, unhexAll(cur))
		return LoadHistory(sets, false)
	}
	// loadhistb: the same with the first source of every multi-source set marked BuiltIn
	Ops["loadhistb"] = func(a []string) string {
		var sets [][]string
		cur := []string{}
		for _, w := range a {
			if w == "|" {
				sets = append(sets, unhexAll(cur))
				cur = []string{}
			} else {
				cur = append(cur, w)
			}
		}
		sets = append(sets, unhexAll(cur))
		return LoadHistory(sets, true)
	}
}
