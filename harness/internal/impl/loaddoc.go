package impl

import (
	"strconv"

	"github.com/vektah/gqlparser/v2/ast"
	"github.com/vektah/gqlparser/v2/gqlerror"
	"github.com/vektah/gqlparser/v2/parser"
	"github.com/vektah/gqlparser/v2/validator"
)

// LoadSources: the prelude as source 0, then the user texts as sources 1… (names u1, u2, …).
// The prelude source is copied so that nothing shared is handed to the library.
func LoadSources(texts []string) ([]*ast.Source, func(*ast.Source) int, map[string]int) {
	pre := *validator.Prelude
	srcs := []*ast.Source{&pre}
	for i, t := range texts {
		srcs = append(srcs, &ast.Source{Name: "u" + strconv.Itoa(i+1), Input: t})
	}
	byPtr := map[*ast.Source]int{}
	byName := map[string]int{}
	for i, s := range srcs {
		byPtr[s] = i
		byName[s.Name] = i
	}
	return srcs, func(s *ast.Source) int {
		if i, ok := byPtr[s]; ok {
			return i
		}
		return -1
	}, byName
}

// ErrObsSrc: E,<line>,<col>,<source index>,<hex message>; no position → E,0,0,-1,…
func ErrObsSrc(err error, byName map[string]int) string {
	ge, ok := err.(*gqlerror.Error)
	if !ok {
		return "E,0,0,-1," + HexW([]byte(err.Error()))
	}
	if len(ge.Locations) == 0 {
		return "E,0,0,-1," + HexW([]byte(ge.Message))
	}
	idx := -1
	if f, ok := ge.Extensions["file"].(string); ok {
		if i, ok := byName[f]; ok {
			idx = i
		}
	}
	return "E," + strconv.Itoa(ge.Locations[0].Line) + "," + strconv.Itoa(ge.Locations[0].Column) + "," + strconv.Itoa(idx) + "," + HexW([]byte(ge.Message))
}

func unhexAll(a []string) []string {
	texts := make([]string, len(a))
	for i, h := range a {
		b, _ := UnhexW(h)
		texts[i] = string(b)
	}
	return texts
}

// MergeDoc parses every source (prelude first) and merges them exactly as parser.ParseSchemas does.
func MergeDoc(texts []string) string {
	srcs, idx, byName := LoadSources(texts)
	sd, err := parser.ParseSchemas(srcs...)
	if err != nil {
		return ErrObsSrc(gqlerror.WrapIfUnwrapped(err), byName)
	}
	s := Sx{Src: idx}
	s.SchemaDoc(sd)
	return s.String()
}

// LoadDoc runs validator.LoadSchema on prelude + sources.
func LoadDoc(texts []string) string {
	srcs, idx, byName := LoadSources(texts)
	sc, err := validator.LoadSchema(srcs...)
	if err != nil {
		return ErrObsSrc(err, byName)
	}
	s := Sx{Src: idx}
	s.LoadedSchema(sc)
	return s.String()
}

func init() {
	// mergedoc <hex src>… : merged SchemaDocument (prelude = source 0) as S-expression, or the parse error
	Ops["mergedoc"] = func(a []string) string { return MergeDoc(unhexAll(a)) }
	// loaddoc <hex src>… : loaded schema (positions carry source indices) or E,<line>,<col>,<src>,<hex msg>
	Ops["loaddoc"] = func(a []string) string { return LoadDoc(unhexAll(a)) }
}
