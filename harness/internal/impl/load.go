package impl

import (
	"strings"

	"github.com/vektah/gqlparser/v2/ast"
	"github.com/vektah/gqlparser/v2/gqlerror"
	"github.com/vektah/gqlparser/v2/validator"
)

// Sources builds named sources s0, s1, … from texts.
func Sources(texts []string) []*ast.Source {
	out := make([]*ast.Source, len(texts))
	for i, t := range texts {
		out[i] = &ast.Source{Name: "s" + string(rune('0'+i%10)), Input: t}
		if i >= 10 {
			out[i].Name = "s" + itoa(i)
		}
	}
	return out
}

func itoa(i int) string {
	if i < 10 {
		return string(rune('0' + i))
	}
	return itoa(i/10) + string(rune('0'+i%10))
}

// LoadSchema loads user sources on top of the prelude, exactly as gqlparser.LoadSchema does.
func LoadSchema(texts ...string) (*ast.Schema, error) {
	srcs := append([]*ast.Source{validator.Prelude}, Sources(texts)...)
	s, err := validator.LoadSchema(srcs...)
	if err != nil {
		return nil, err
	}
	return s, nil
}

// ErrObsFull: E,<line>,<col>,<file hex>,<rule hex>,<message hex>
func ErrObsFull(err error) string {
	ge, ok := err.(*gqlerror.Error)
	if !ok {
		return "E,0,0,-,-," + HexW([]byte(err.Error()))
	}
	l, c := 0, 0
	if len(ge.Locations) > 0 {
		l, c = ge.Locations[0].Line, ge.Locations[0].Column
	}
	file := ""
	if f, ok := ge.Extensions["file"].(string); ok {
		file = f
	}
	return "E," + itoa(l) + "," + itoa(c) + "," + HexW([]byte(file)) + "," + HexW([]byte(ge.Rule)) + "," + HexW([]byte(ge.Message))
}

func init() {
	// loadobs <hex source>… : loaded schema as S-expression, or the load error
	Ops["loadobs"] = func(a []string) string {
		texts := make([]string, len(a))
		for i, h := range a {
			b, _ := UnhexW(h)
			texts[i] = string(b)
		}
		s, err := LoadSchema(texts...)
		if err != nil {
			return ErrObsFull(err)
		}
		return SexpLoadedSchema(s)
	}
}

var _ = strings.Join
