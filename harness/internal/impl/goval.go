package impl

// Wire codec for JSON-like Go values (lean/GqlModel/Vars/Value.lean `Wire.goVal` / `Wire.dGoVal`).
//
//	nil | (b 0|1) | (i <intkind> n) | (u <uintkind> n) | (f32 x<text>) | (f64 x<text>) | (jn x<text>)
//	| (s x<bytes>) | (sl <type> item…) | (m <type> (x<key> value)…)
//	type ::= I | bool | int… | uint… | f32 | f64 | str | jn | (sl type) | (m type)
//
// Floats travel as decimal text (strconv.FormatFloat(f,'g',-1,bits)); map entries are printed
// sorted by key. Values outside the domain print as (other x<%T>).

import (
	"encoding/hex"
	"encoding/json"
	"fmt"
	"reflect"
	"regexp"
	"sort"
	"strconv"
	"strings"
)

// ---------- a small S-expression reader ----------

type SNode struct {
	Atom string
	List []*SNode
	IsL  bool
}

func ParseSexp(s string) (*SNode, error) {
	pos := 0
	var parse func() (*SNode, error)
	skip := func() {
		for pos < len(s) && (s[pos] == ' ' || s[pos] == '\t' || s[pos] == '\n' || s[pos] == '\r') {
			pos++
		}
	}
	parse = func() (*SNode, error) {
		skip()
		if pos >= len(s) {
			return nil, fmt.Errorf("unexpected end")
		}
		if s[pos] == '(' {
			pos++
			n := &SNode{IsL: true}
			for {
				skip()
				if pos >= len(s) {
					return nil, fmt.Errorf("unclosed list")
				}
				if s[pos] == ')' {
					pos++
					return n, nil
				}
				c, err := parse()
				if err != nil {
					return nil, err
				}
				n.List = append(n.List, c)
			}
		}
		if s[pos] == ')' {
			return nil, fmt.Errorf("unexpected )")
		}
		st := pos
		for pos < len(s) && s[pos] != ' ' && s[pos] != '(' && s[pos] != ')' && s[pos] != '\t' {
			pos++
		}
		return &SNode{Atom: s[st:pos]}, nil
	}
	n, err := parse()
	if err != nil {
		return nil, err
	}
	skip()
	if pos != len(s) {
		return nil, fmt.Errorf("trailing input")
	}
	return n, nil
}

func (n *SNode) bytes() (string, bool) {
	if n.IsL || !strings.HasPrefix(n.Atom, "x") {
		return "", false
	}
	b, err := hex.DecodeString(n.Atom[1:])
	return string(b), err == nil
}

// ---------- types ----------

var ifaceType = reflect.TypeOf((*interface{})(nil)).Elem()
var jsonNumberType = reflect.TypeOf(json.Number(""))

var scalarTypes = map[string]reflect.Type{
	"I": ifaceType, "bool": reflect.TypeOf(false),
	"int": reflect.TypeOf(int(0)), "int8": reflect.TypeOf(int8(0)), "int16": reflect.TypeOf(int16(0)), "int32": reflect.TypeOf(int32(0)), "int64": reflect.TypeOf(int64(0)),
	"uint": reflect.TypeOf(uint(0)), "uint8": reflect.TypeOf(uint8(0)), "uint16": reflect.TypeOf(uint16(0)), "uint32": reflect.TypeOf(uint32(0)), "uint64": reflect.TypeOf(uint64(0)),
	"f32": reflect.TypeOf(float32(0)), "f64": reflect.TypeOf(float64(0)), "str": reflect.TypeOf(""), "jn": jsonNumberType,
}

func goTypeFromSexp(n *SNode) (reflect.Type, error) {
	if !n.IsL {
		if t, ok := scalarTypes[n.Atom]; ok {
			return t, nil
		}
		return nil, fmt.Errorf("bad type %q", n.Atom)
	}
	if len(n.List) == 2 && !n.List[0].IsL {
		e, err := goTypeFromSexp(n.List[1])
		if err != nil {
			return nil, err
		}
		switch n.List[0].Atom {
		case "sl":
			return reflect.SliceOf(e), nil
		case "m":
			return reflect.MapOf(reflect.TypeOf(""), e), nil
		}
	}
	return nil, fmt.Errorf("bad type")
}

func typeSexp(t reflect.Type) string {
	switch {
	case t == ifaceType:
		return "I"
	case t == jsonNumberType:
		return "jn"
	}
	if t.PkgPath() == "" { // unnamed / predeclared
		switch t.Kind() {
		case reflect.Bool:
			return "bool"
		case reflect.Int, reflect.Int8, reflect.Int16, reflect.Int32, reflect.Int64,
			reflect.Uint, reflect.Uint8, reflect.Uint16, reflect.Uint32, reflect.Uint64:
			return t.Kind().String()
		case reflect.Float32:
			return "f32"
		case reflect.Float64:
			return "f64"
		case reflect.String:
			return "str"
		case reflect.Slice:
			return "(sl " + typeSexp(t.Elem()) + ")"
		case reflect.Map:
			if t.Key().Kind() == reflect.String && t.Key().PkgPath() == "" {
				return "(m " + typeSexp(t.Elem()) + ")"
			}
		}
	}
	return "(other x" + hex.EncodeToString([]byte(t.String())) + ")"
}

// ---------- values ----------

// GoValFromSexp builds a fresh Go value (never shares structure between calls).
func GoValFromSexp(n *SNode) (interface{}, error) {
	if !n.IsL {
		if n.Atom == "nil" {
			return nil, nil
		}
		return nil, fmt.Errorf("bad value atom %q", n.Atom)
	}
	if len(n.List) == 0 || n.List[0].IsL {
		return nil, fmt.Errorf("bad value")
	}
	tag := n.List[0].Atom
	arg := func(i int) *SNode {
		if i < len(n.List) {
			return n.List[i]
		}
		return &SNode{}
	}
	switch tag {
	case "b":
		return arg(1).Atom == "1", nil
	case "i":
		v, err := strconv.ParseInt(arg(2).Atom, 10, 64)
		if err != nil {
			return nil, err
		}
		switch arg(1).Atom {
		case "int":
			return int(v), nil
		case "int8":
			return int8(v), nil
		case "int16":
			return int16(v), nil
		case "int32":
			return int32(v), nil
		case "int64":
			return v, nil
		}
		return nil, fmt.Errorf("bad int kind")
	case "u":
		v, err := strconv.ParseUint(arg(2).Atom, 10, 64)
		if err != nil {
			return nil, err
		}
		switch arg(1).Atom {
		case "uint":
			return uint(v), nil
		case "uint8":
			return uint8(v), nil
		case "uint16":
			return uint16(v), nil
		case "uint32":
			return uint32(v), nil
		case "uint64":
			return v, nil
		}
		return nil, fmt.Errorf("bad uint kind")
	case "f32", "f64":
		t, ok := arg(1).bytes()
		if !ok {
			return nil, fmt.Errorf("bad float text")
		}
		if tag == "f32" {
			f, err := strconv.ParseFloat(t, 32)
			if err != nil && !strings.Contains(err.Error(), "range") {
				return nil, err
			}
			return float32(f), nil
		}
		f, err := strconv.ParseFloat(t, 64)
		if err != nil && !strings.Contains(err.Error(), "range") {
			return nil, err
		}
		return f, nil
	case "jn":
		t, ok := arg(1).bytes()
		if !ok {
			return nil, fmt.Errorf("bad jn")
		}
		return json.Number(t), nil
	case "s":
		t, ok := arg(1).bytes()
		if !ok {
			return nil, fmt.Errorf("bad string")
		}
		return t, nil
	case "sl":
		et, err := goTypeFromSexp(arg(1))
		if err != nil {
			return nil, err
		}
		sl := reflect.MakeSlice(reflect.SliceOf(et), 0, len(n.List)-2)
		for _, c := range n.List[2:] {
			x, err := GoValFromSexp(c)
			if err != nil {
				return nil, err
			}
			xv, err := asType(x, et)
			if err != nil {
				return nil, err
			}
			sl = reflect.Append(sl, xv)
		}
		return sl.Interface(), nil
	case "m":
		et, err := goTypeFromSexp(arg(1))
		if err != nil {
			return nil, err
		}
		m := reflect.MakeMap(reflect.MapOf(reflect.TypeOf(""), et))
		for _, c := range n.List[2:] {
			if !c.IsL || len(c.List) != 2 {
				return nil, fmt.Errorf("bad map entry")
			}
			k, ok := c.List[0].bytes()
			if !ok {
				return nil, fmt.Errorf("bad map key")
			}
			x, err := GoValFromSexp(c.List[1])
			if err != nil {
				return nil, err
			}
			xv, err := asType(x, et)
			if err != nil {
				return nil, err
			}
			m.SetMapIndex(reflect.ValueOf(k), xv)
		}
		return m.Interface(), nil
	}
	return nil, fmt.Errorf("bad value tag %q", tag)
}

func asType(x interface{}, t reflect.Type) (reflect.Value, error) {
	if x == nil {
		if t == ifaceType {
			return reflect.Zero(t), nil
		}
		return reflect.Value{}, fmt.Errorf("nil in typed container")
	}
	v := reflect.ValueOf(x)
	if !v.Type().AssignableTo(t) {
		return reflect.Value{}, fmt.Errorf("%s not assignable to %s", v.Type(), t)
	}
	return v, nil
}

func xhex(s string) string { return "x" + hex.EncodeToString([]byte(s)) }

// SexpGoVal prints a Go value canonically.
func SexpGoVal(x interface{}) string {
	if x == nil {
		return "nil"
	}
	switch v := x.(type) {
	case json.Number:
		return "(jn " + xhex(string(v)) + ")"
	case string:
		return "(s " + xhex(v) + ")"
	case bool:
		if v {
			return "(b 1)"
		}
		return "(b 0)"
	case float64:
		return "(f64 " + xhex(strconv.FormatFloat(v, 'g', -1, 64)) + ")"
	case float32:
		return "(f32 " + xhex(strconv.FormatFloat(float64(v), 'g', -1, 32)) + ")"
	}
	rv := reflect.ValueOf(x)
	t := rv.Type()
	if t.PkgPath() == "" {
		switch rv.Kind() {
		case reflect.Int, reflect.Int8, reflect.Int16, reflect.Int32, reflect.Int64:
			return "(i " + rv.Kind().String() + " " + strconv.FormatInt(rv.Int(), 10) + ")"
		case reflect.Uint, reflect.Uint8, reflect.Uint16, reflect.Uint32, reflect.Uint64:
			return "(u " + rv.Kind().String() + " " + strconv.FormatUint(rv.Uint(), 10) + ")"
		case reflect.Slice:
			var sb strings.Builder
			sb.WriteString("(sl " + typeSexp(t.Elem()))
			for i := 0; i < rv.Len(); i++ {
				sb.WriteByte(' ')
				sb.WriteString(SexpGoVal(rv.Index(i).Interface()))
			}
			sb.WriteByte(')')
			return sb.String()
		case reflect.Map:
			if t.Key().Kind() == reflect.String && t.Key().PkgPath() == "" {
				keys := make([]string, 0, rv.Len())
				for _, k := range rv.MapKeys() {
					keys = append(keys, k.String())
				}
				sort.Strings(keys)
				var sb strings.Builder
				sb.WriteString("(m " + typeSexp(t.Elem()))
				for _, k := range keys {
					sb.WriteString(" (" + xhex(k) + " " + SexpGoVal(rv.MapIndex(reflect.ValueOf(k)).Interface()) + ")")
				}
				sb.WriteByte(')')
				return sb.String()
			}
		}
	}
	return "(other " + xhex(fmt.Sprintf("%T", x)) + ")"
}

var floatNodeRe = regexp.MustCompile(`\(f64 x([0-9a-f]*)\)`)

// CanonFloats rewrites every (f64 x<text>) node to the canonical text of the float64 the text
// denotes (the model carries literal text, Go carries the parsed value).
func CanonFloats(obs string) string {
	return floatNodeRe.ReplaceAllStringFunc(obs, func(m string) string {
		sub := floatNodeRe.FindStringSubmatch(m)
		b, err := hex.DecodeString(sub[1])
		if err != nil {
			return m
		}
		f, err := strconv.ParseFloat(string(b), 64)
		if err != nil && !strings.Contains(err.Error(), "range") {
			return m
		}
		return "(f64 " + xhex(strconv.FormatFloat(f, 'g', -1, 64)) + ")"
	})
}

// String re-renders a parsed S-expression.
func (n *SNode) String() string {
	if !n.IsL {
		return n.Atom
	}
	parts := make([]string, len(n.List))
	for i, c := range n.List {
		parts[i] = c.String()
	}
	return "(" + strings.Join(parts, " ") + ")"
}

// MapEntry returns the value stored under key in a printed (m T (xkey v)…) node.
func (n *SNode) MapEntry(key string) *SNode {
	if !n.IsL || len(n.List) < 2 || n.List[0].Atom != "m" {
		return nil
	}
	for _, e := range n.List[2:] {
		if e.IsL && len(e.List) == 2 {
			if k, ok := e.List[0].bytes(); ok && k == key {
				return e.List[1]
			}
		}
	}
	return nil
}
