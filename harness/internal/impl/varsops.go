package impl

// Ops that run the REAL validator.VariableValues / Field.ArgumentMap / Directive.ArgumentMap and
// produce, next to their own observation, the request line for the Lean driver built from the
// trees THEY parsed (so that both sides see the same trees).
//
//	varsgo <schema hex> <document hex> <opIndex> (list <goval>…)
//	    → "<driver request>\t<obs>;<obs>;…"   obs = OK <goval> | ERR <hex msg> <path> | PANIC <hex msg>
//	    → "INVALID <hex>" when the schema does not load or the document does not validate
//	argmapgo <schema hex> <document hex> <opIndex> <coerce 0|1> <goval map>
//	    → "<driver request>\t<obs>\t<argspec request>\t<argspec request with the linked definitions>\t…" (quadruples) for every field and directive of the
//	      document; obs = OK <goval> | PANIC <hex msg>; with coerce=1 the variables are first run
//	      through VariableValues of operation opIndex ("NOCOERCE <obs>" if that fails)
//	strconvgo pi|pf|pb|quote <hex>

import (
	"encoding/hex"
	"encoding/json"
	"fmt"
	"strconv"
	"strings"
	"sync"

	"github.com/vektah/gqlparser/v2"
	"github.com/vektah/gqlparser/v2/ast"
	"github.com/vektah/gqlparser/v2/gqlerror"
	"github.com/vektah/gqlparser/v2/validator"
)

var schemaCache sync.Map // text → *cachedSchema

type cachedSchema struct {
	s    *ast.Schema
	sexp string
	err  error
}

func loadCached(text string) *cachedSchema {
	if c, ok := schemaCache.Load(text); ok {
		return c.(*cachedSchema)
	}
	s, err := LoadSchema(text)
	c := &cachedSchema{s: s, err: err}
	if err == nil {
		c.sexp = SexpLoadedSchema(s)
	}
	schemaCache.Store(text, c)
	return c
}

func loadDoc(c *cachedSchema, doc string) (*ast.QueryDocument, string) {
	if c.err != nil {
		return nil, "INVALID " + HexW([]byte(c.err.Error()))
	}
	d, errs := gqlparser.LoadQuery(c.s, doc)
	if len(errs) > 0 {
		return nil, "INVALID " + HexW([]byte(errs.Error()))
	}
	return d, ""
}

func PathSexp(p ast.Path) string {
	var sb strings.Builder
	sb.WriteByte('(')
	for i, e := range p {
		if i > 0 {
			sb.WriteByte(' ')
		}
		switch x := e.(type) {
		case ast.PathName:
			sb.WriteString(xhex(string(x)))
		case ast.PathIndex:
			sb.WriteString(strconv.Itoa(int(x)))
		default:
			sb.WriteString("other")
		}
	}
	sb.WriteByte(')')
	return sb.String()
}

// VarsObs runs the real VariableValues with panics observed.
func VarsObs(s *ast.Schema, op *ast.OperationDefinition, vars map[string]interface{}) (obs string, out map[string]interface{}) {
	defer func() {
		if r := recover(); r != nil {
			obs, out = "PANIC "+HexW([]byte(fmt.Sprint(r))), nil
		}
	}()
	res, err := validator.VariableValues(s, op, vars)
	if err != nil {
		if ge, ok := err.(*gqlerror.Error); ok {
			return "ERR " + HexW([]byte(ge.Message)) + " " + PathSexp(ge.Path), nil
		}
		return "ERR " + HexW([]byte(err.Error())) + " ()", nil
	}
	return "OK " + SexpGoVal(res), res
}

func varsMapFromSexp(n *SNode) (map[string]interface{}, error) {
	v, err := GoValFromSexp(n)
	if err != nil {
		return nil, err
	}
	m, ok := v.(map[string]interface{})
	if !ok {
		return nil, fmt.Errorf("variables must be (m I …)")
	}
	return m, nil
}

func opVarsGo(a []string) string {
	if len(a) < 4 {
		return "bad-args"
	}
	sb, _ := UnhexW(a[0])
	db, _ := UnhexW(a[1])
	idx, _ := strconv.Atoi(a[2])
	c := loadCached(string(sb))
	doc, bad := loadDoc(c, string(db))
	if doc == nil {
		return bad
	}
	if idx < 0 || idx >= len(doc.Operations) {
		return "bad-op-index"
	}
	n, err := ParseSexp(strings.Join(a[3:], " "))
	if err != nil || !n.IsL || len(n.List) == 0 || n.List[0].Atom != "list" {
		return "bad-vals"
	}
	var req strings.Builder
	req.WriteString("vars " + a[2] + " (list " + c.sexp + " " + SexpQuery(doc))
	var obs []string
	for _, vn := range n.List[1:] {
		m, err := varsMapFromSexp(vn)
		if err != nil {
			return "bad-vals:" + err.Error()
		}
		req.WriteString(" " + SexpGoVal(m)) // printed BEFORE the call: VariableValues updates maps in place
		o, _ := VarsObs(c.s, doc.Operations[idx], m)
		obs = append(obs, o)
	}
	req.WriteString(")")
	return req.String() + "\t" + strings.Join(obs, ";")
}

// ---------- argument maps ----------

type argSite struct {
	what string // for reports
	defs ast.ArgumentDefinitionList
	nodf bool
	args ast.ArgumentList
	call func(vars map[string]interface{}) map[string]interface{}
}

func collectVarLinks(v *ast.Value, seen map[string]bool, out *ast.VariableDefinitionList) {
	if v == nil {
		return
	}
	if v.Kind == ast.Variable && v.VariableDefinition != nil && !seen[v.Raw] {
		seen[v.Raw] = true
		*out = append(*out, v.VariableDefinition)
	}
	for _, c := range v.Children {
		collectVarLinks(c.Value, seen, out)
	}
}

// collectSites: the field and directive sites of the execution of operation `only` — its own
// directives, those of its variable definitions, its selection set and the fragments it reaches
// through spreads; with only == nil every site of the document.
func collectSites(doc *ast.QueryDocument, only *ast.OperationDefinition) []argSite {
	var sites []argSite
	reached := map[string]bool{}
	var order []string
	var dirs func(ds ast.DirectiveList, where string)
	var sels func(ss ast.SelectionSet)
	dirs = func(ds ast.DirectiveList, where string) {
		for _, d := range ds {
			d := d
			st := argSite{what: "@" + d.Name + " on " + where, args: d.Arguments, call: d.ArgumentMap}
			if d.Definition == nil {
				st.nodf = true
			} else {
				st.defs = d.Definition.Arguments
			}
			sites = append(sites, st)
		}
	}
	sels = func(ss ast.SelectionSet) {
		for _, s := range ss {
			switch f := s.(type) {
			case *ast.Field:
				st := argSite{what: "field " + f.Name, args: f.Arguments, call: f.ArgumentMap}
				if f.Definition == nil {
					st.nodf = true
				} else {
					st.defs = f.Definition.Arguments
				}
				sites = append(sites, st)
				dirs(f.Directives, "field "+f.Name)
				sels(f.SelectionSet)
			case *ast.FragmentSpread:
				dirs(f.Directives, "spread "+f.Name)
				if !reached[f.Name] {
					reached[f.Name] = true
					order = append(order, f.Name)
				}
			case *ast.InlineFragment:
				dirs(f.Directives, "inline fragment")
				sels(f.SelectionSet)
			}
		}
	}
	for _, o := range doc.Operations {
		if only != nil && o != only {
			continue
		}
		dirs(o.Directives, "operation "+o.Name)
		for _, v := range o.VariableDefinitions {
			dirs(v.Directives, "variable "+v.Variable)
		}
		sels(o.SelectionSet)
	}
	if only != nil {
		for i := 0; i < len(order); i++ { // `order` grows while fragments are walked
			if f := doc.Fragments.ForName(order[i]); f != nil {
				dirs(f.Directives, "fragment "+f.Name)
				sels(f.SelectionSet)
			}
		}
		return sites
	}
	for _, f := range doc.Fragments {
		dirs(f.Directives, "fragment "+f.Name)
		sels(f.SelectionSet)
	}
	return sites
}

func argMapObs(call func(map[string]interface{}) map[string]interface{}, vars map[string]interface{}) (obs string) {
	defer func() {
		if r := recover(); r != nil {
			obs = "PANIC " + HexW([]byte(fmt.Sprint(r)))
		}
	}()
	return "OK " + SexpGoVal(call(vars))
}

// ArgSiteRequest renders the driver request `<op> (list <argdefs|nodef> <args> <vardefs> <vars>)`.
func argSiteRequest(op string, st argSite, vars map[string]interface{}, vdefs ast.VariableDefinitionList) string {
	var sx Sx
	sx.sb.WriteString(op + " (list")
	if st.nodf {
		sx.sb.WriteString(" nodef")
	} else {
		sx.ArgDefs(st.defs)
	}
	sx.Args(st.args)
	links := vdefs
	if links == nil {
		// the definitions the Go nodes are actually linked to (Value.VariableDefinition)
		seen := map[string]bool{}
		for _, a := range st.args {
			collectVarLinks(a.Value, seen, &links)
		}
	}
	sx.VarDefs(links)
	sx.sb.WriteString(" " + SexpGoVal(vars) + ")")
	return sx.String()
}

func opArgMapGo(a []string) string {
	if len(a) < 5 {
		return "bad-args"
	}
	sb, _ := UnhexW(a[0])
	db, _ := UnhexW(a[1])
	idx, _ := strconv.Atoi(a[2])
	c := loadCached(string(sb))
	doc, bad := loadDoc(c, string(db))
	if doc == nil {
		return bad
	}
	n, err := ParseSexp(strings.Join(a[4:], " "))
	if err != nil {
		return "bad-vals"
	}
	vars, err := varsMapFromSexp(n)
	if err != nil {
		return "bad-vals:" + err.Error()
	}
	if a[3] == "1" {
		if idx < 0 || idx >= len(doc.Operations) {
			return "bad-op-index"
		}
		o, res := VarsObs(c.s, doc.Operations[idx], vars)
		if res == nil {
			return "NOCOERCE " + o
		}
		vars = res
	}
	var out []string
	var executed *ast.OperationDefinition
	if idx >= 0 && idx < len(doc.Operations) {
		executed = doc.Operations[idx]
	}
	// one parsed document serves many requests with different variables: the map computed for a
	// site must not depend on the variables an earlier call on the same node was given
	other := perturbVars(vars)
	if docB, _ := loadDoc(c, string(db)); docB != nil {
		var executedB *ast.OperationDefinition
		if idx >= 0 && idx < len(docB.Operations) {
			executedB = docB.Operations[idx]
		}
		sitesB := collectSites(docB, executedB)
		for k, st := range collectSites(doc, executed) {
			if k >= len(sitesB) {
				break
			}
			first := argMapObs(st.call, vars)
			second := argMapObs(st.call, other)                             // the node has served `vars` before
			if fresh := argMapObs(sitesB[k].call, other); fresh != second { // this node has not
				return "HISTORY " + strconv.Itoa(k) + " " + HexW([]byte(fresh)) + " " + HexW([]byte(second))
			}
			argMapObs(st.call, map[string]interface{}{})
			if again := argMapObs(st.call, vars); again != first {
				return "HISTORY " + strconv.Itoa(k) + " " + HexW([]byte(first)) + " " + HexW([]byte(again))
			}
		}
	}
	for _, st := range collectSites(doc, executed) {
		var opDefs ast.VariableDefinitionList = ast.VariableDefinitionList{}
		if idx >= 0 && idx < len(doc.Operations) && doc.Operations[idx].VariableDefinitions != nil {
			opDefs = doc.Operations[idx].VariableDefinitions
		}
		// request for the model (linked definitions), Go observation, request for the specification
		// (the definitions of the operation being executed)
		// … and for the specification with the LINKED definitions (classifies a difference: if Go agrees
		// with this one, the difference is due to the links alone)
		out = append(out, argSiteRequest("argmap", st, vars, nil), argMapObs(st.call, vars), argSiteRequest("argspec", st, vars, opDefs), argSiteRequest("argspec", st, vars, nil))
	}
	return strings.Join(out, "\t")
}

func opStrconvGo(a []string) string {
	if len(a) < 2 {
		return "bad-args"
	}
	b, _ := UnhexW(a[1])
	s := string(b)
	switch a[0] {
	case "pi":
		n, err := strconv.ParseInt(s, 10, 64)
		if err == nil {
			return "OK " + strconv.FormatInt(n, 10)
		}
		if err.(*strconv.NumError).Err == strconv.ErrRange {
			return "RNG " + strconv.FormatInt(n, 10)
		}
		return "SYN"
	case "pf":
		f, err := strconv.ParseFloat(s, 64)
		if err == nil {
			return "OK"
		}
		if err.(*strconv.NumError).Err == strconv.ErrRange {
			if f < 0 {
				return "RNG-"
			}
			return "RNG+"
		}
		return "SYN"
	case "pb":
		v, err := strconv.ParseBool(s)
		if err != nil {
			return "SYN"
		}
		if v {
			return "OK 1"
		}
		return "OK 0"
	case "quote":
		return HexW([]byte(strconv.Quote(s)))
	}
	return "bad-args"
}

// varsprobe <schema hex>: Go-only totality probes with values OUTSIDE the model's domain
// (pointers, maps with non-string keys, structs, named types); one "description => observation" per
// probe, joined by tabs.
func opVarsProbe(a []string) string {
	sb, _ := UnhexW(a[0])
	c := loadCached(string(sb))
	if c.err != nil {
		return "INVALID"
	}
	type myStr string
	one := 1
	var nilInt *int
	var nilMap map[string]interface{}
	var nilSlice []interface{}
	probes := []struct {
		typ  string
		desc string
		val  interface{}
	}{
		{"Int", "(*int)(nil)", nilInt},
		{"Int!", "(*int)(nil)", nilInt},
		{"[Int]", "(*int)(nil)", nilInt},
		{"Int", "&1", &one},
		{"[Int]", "&1", &one},
		{"[Int]", "[]*int{nil}", []*int{nil}},
		{"[Int!]", "[]*int{nil}", []*int{nil}},
		{"[Int]", "[]*int{&1}", []*int{&one}},
		{"[[Int]]", "[]*int{nil}", []*int{nil}},
		{"Inner", "map[int]interface{}{}", map[int]interface{}{}},
		{"Inner", "map[int]interface{}{1:1}", map[int]interface{}{1: 1}},
		{"Inner", "map[myStr]interface{}{\"b\":\"x\"}", map[myStr]interface{}{"b": "x"}},
		{"Inner", "map[string]interface{}(nil)", nilMap},
		{"[Int]", "[]interface{}(nil)", nilSlice},
		{"Inner", "struct{}{}", struct{}{}},
		{"Inner", "map[string]*int{\"a\":nil,\"b\":nil}", map[string]*int{"a": nil, "b": nil}},
		{"Inner", "map[string]string{\"b\":\"x\",\"c\":\"1\"}", map[string]string{"b": "x", "c": "1"}},
		{"Inner", "map[string]int{\"a\":1,\"c\":1}", map[string]int{"a": 1, "c": 1}},
		{"Color", "myStr(\"RED\")", myStr("RED")},
		{"String", "myStr(\"x\")", myStr("x")},
		{"Int", "[1]int{1}", [1]int{1}},
		{"[Int]", "[1]int{1}", [1]int{1}},
		{"Int", "uintptr(1)", uintptr(1)},
		{"Custom", "(*int)(nil)", nilInt},
		{"Custom!", "(*int)(nil)", nilInt},
		{"Int", "complex(1,1)", complex(1, 1)},
		{"Int", "func(){}", func() {}},
	}
	var out []string
	for _, p := range probes {
		field := ""
		for _, f := range c.s.Query.Fields {
			if a := f.Arguments.ForName("x"); a != nil && a.Type.String() == p.typ {
				field = f.Name
			}
		}
		doc, bad := loadDoc(c, "query Q($v: "+p.typ+") { "+field+"(x: $v) }")
		if doc == nil {
			out = append(out, "$v: "+p.typ+" = "+p.desc+" => "+bad)
			continue
		}
		o, _ := VarsObs(c.s, doc.Operations[0], map[string]interface{}{"v": p.val})
		if strings.HasPrefix(o, "PANIC ") {
			b, _ := UnhexW(o[6:])
			o = "PANIC: " + string(b)
		} else if strings.HasPrefix(o, "ERR ") {
			f := strings.Fields(o)
			b, _ := UnhexW(f[1])
			o = "ERR: " + string(b)
		}
		out = append(out, "$v: "+p.typ+" = "+p.desc+" => "+o)
	}
	return strings.Join(out, "\t")
}

// varsalias <schema hex>: VariableValues is a function of the VALUES it is given, not of the identity of
// the Go maps that hold them: one and the same map object supplied at two positions whose declared
// input-object types differ must be judged at each position on its own. Every probe supplies a map
// that conforms (already in coerced form, so that nothing needs rewriting) to the first type and cannot
// conform to the second; with two equal but distinct maps the call must fail, and with ONE shared map
// object it must fail too. One "description => fresh=<OK|ERR|PANIC> shared=<…>" per probe.
func opVarsAlias(a []string) string {
	sb, _ := UnhexW(a[0])
	c := loadCached(string(sb))
	if c.err != nil {
		return "INVALID"
	}
	mk := map[string]func() map[string]interface{}{
		"Inner":        func() map[string]interface{} { return map[string]interface{}{"b": "s"} },
		"Rec":          func() map[string]interface{} { return map[string]interface{}{"v": 1} },
		"WithDefaults": func() map[string]interface{} { return map[string]interface{}{"req": 1} },
	}
	fieldFor := func(typ string) string {
		for _, f := range c.s.Query.Fields {
			if a := f.Arguments.ForName("x"); a != nil && a.Type.String() == typ {
				return f.Name
			}
		}
		return ""
	}
	class := func(o string) string { return strings.Fields(o + " ?")[0] }
	var out []string
	run := func(desc, doc string, build func(shared bool) map[string]interface{}) {
		var res [2]string
		for k, shared := range []bool{false, true} {
			d, bad := loadDoc(c, doc)
			if d == nil {
				out = append(out, desc+" => "+bad)
				return
			}
			o, _ := VarsObs(c.s, d.Operations[0], build(shared))
			res[k] = class(o)
		}
		out = append(out, desc+" => fresh="+res[0]+" shared="+res[1])
	}
	names := []string{"Inner", "Rec", "WithDefaults"}
	for _, ta := range names {
		for _, tb := range names {
			if ta == tb {
				continue
			}
			ta, tb := ta, tb
			for _, wrap := range []string{"", "list"} {
				wrap := wrap
				tA, tB := ta, tb
				if wrap == "list" {
					tA, tB = "["+ta+"]", "["+tb+"]"
				}
				doc := "query Q($a: " + tA + ", $b: " + tB + ") { p: " + fieldFor(tA) + "(x: $a) q: " + fieldFor(tB) + "(x: $b) }"
				run("$a: "+tA+", $b: "+tB+" given the value of "+ta, doc, func(shared bool) map[string]interface{} {
					m1, m2 := mk[ta](), mk[ta]()
					if shared {
						m2 = m1
					}
					if wrap == "list" {
						return map[string]interface{}{"a": []interface{}{m1}, "b": []interface{}{m2}}
					}
					return map[string]interface{}{"a": m1, "b": m2}
				})
			}
		}
	}
	// the same map at two fields of one input object: Deep.m is [[Inner]], Deep.w is [WithDefaults!]
	run("$d: Deep = {m: [[x]], w: [x]} with x the value of Inner", "query Q($d: Deep) { p: "+fieldFor("Deep")+"(x: $d) }", func(shared bool) map[string]interface{} {
		m1, m2 := mk["Inner"](), mk["Inner"]()
		if shared {
			m2 = m1
		}
		return map[string]interface{}{"d": map[string]interface{}{"m": []interface{}{[]interface{}{m1}}, "w": []interface{}{m2}}}
	})
	// … and a map that contains the shared map twice, under a recursive type and under another one
	run("$r: Rec = {v: 1, self: y}, $i: Inner = y with y the value of Rec", "query Q($r: Rec, $i: Inner) { p: "+fieldFor("Rec")+"(x: $r) q: "+fieldFor("Inner")+"(x: $i) }", func(shared bool) map[string]interface{} {
		m1, m2 := mk["Rec"](), mk["Rec"]()
		if shared {
			m2 = m1
		}
		return map[string]interface{}{"r": map[string]interface{}{"v": 1, "self": m1}, "i": m2}
	})
	return strings.Join(out, "\t")
}

func init() {
	Ops["varsalias"] = opVarsAlias
	Ops["varsprobe"] = opVarsProbe
	Ops["varsgo"] = opVarsGo
	Ops["argmapgo"] = opArgMapGo
	Ops["strconvgo"] = opStrconvGo
}

var _ = hex.EncodeToString

// perturbVars: the same variables with every leaf value changed (kind kept).
func perturbVars(vars map[string]interface{}) map[string]interface{} {
	var p func(v interface{}) interface{}
	p = func(v interface{}) interface{} {
		switch x := v.(type) {
		case nil:
			return nil
		case bool:
			return !x
		case int:
			return x + 1
		case int64:
			return x + 1
		case float64:
			return x + 1
		case string:
			return x + "x"
		case json.Number:
			return json.Number(string(x) + "1")
		case []interface{}:
			out := make([]interface{}, len(x))
			for i := range x {
				out[i] = p(x[i])
			}
			return out
		case map[string]interface{}:
			out := make(map[string]interface{}, len(x))
			for k, e := range x {
				out[k] = p(e)
			}
			return out
		}
		return v
	}
	out := make(map[string]interface{}, len(vars))
	for k, v := range vars {
		out[k] = p(v)
	}
	return out
}
