package impl

import (
	"fmt"
	"reflect"
	"strconv"

	"github.com/vektah/gqlparser/v2/ast"
	"github.com/vektah/gqlparser/v2/parser"
)

// ParseSchemasObs runs ParseSchemas (limit < 0) / ParseSchemasWithLimit over sources named
// s0, s1, …; positions carry the index of their source.
func ParseSchemasObs(inputs []string, limit int) string {
	srcs := make([]*ast.Source, len(inputs))
	idx := map[*ast.Source]int{}
	for i, in := range inputs {
		srcs[i] = &ast.Source{Input: in, Name: "s" + strconv.Itoa(i)}
		idx[srcs[i]] = i
	}
	var doc *ast.SchemaDocument
	var err error
	if limit < 0 {
		doc, err = parser.ParseSchemas(srcs...)
	} else {
		doc, err = parser.ParseSchemasWithLimit(limit, srcs...)
	}
	if err != nil {
		return ErrObs(err)
	}
	sx := Sx{Src: func(s *ast.Source) int { return idx[s] }}
	sx.SchemaDoc(doc)
	return sx.String()
}

func init() {
	// pss <limit|-1> <hex> <hex> …
	Ops["pss"] = func(a []string) string {
		var lim int
		fmt.Sscan(a[0], &lim)
		ins := make([]string, 0, len(a)-1)
		for _, h := range a[1:] {
			b, _ := UnhexW(h)
			ins = append(ins, string(b))
		}
		return ParseSchemasObs(ins, lim)
	}
	// psb <limit|-1> <flags: one 0/1 per source = Source.BuiltIn> <hex> <hex> …
	Ops["psb"] = func(a []string) string {
		var lim int
		fmt.Sscan(a[0], &lim)
		srcs := make([]*ast.Source, 0, len(a)-2)
		idx := map[*ast.Source]int{}
		for i, h := range a[2:] {
			b, _ := UnhexW(h)
			s := &ast.Source{Input: string(b), Name: "s" + strconv.Itoa(i), BuiltIn: i < len(a[1]) && a[1][i] == '1'}
			idx[s] = i
			srcs = append(srcs, s)
		}
		var doc *ast.SchemaDocument
		var err error
		if lim < 0 {
			doc, err = parser.ParseSchemas(srcs...)
		} else {
			doc, err = parser.ParseSchemasWithLimit(lim, srcs...)
		}
		if err != nil {
			return ErrObs(err)
		}
		sx := Sx{Src: func(s *ast.Source) int { return idx[s] }}
		sx.SchemaDoc(doc)
		return sx.String()
	}
	// pqhist <q|s> <limit of the earlier parse> <hex earlier text> <limit> <hex text>: an earlier parse under a
	// limit (its result is dropped), then the text under <limit> (a limit that is not reached) compared
	// with the unlimited parse of the same *ast.Source by reflect.DeepEqual — positions AND comment
	// groups included, which the wire format of the other ops leaves out
	Ops["pqhist"] = func(a []string) string {
		var l0, l1 int
		fmt.Sscan(a[1], &l0)
		fmt.Sscan(a[3], &l1)
		b0, _ := UnhexW(a[2])
		b1, _ := UnhexW(a[4])
		src := &ast.Source{Input: string(b1), Name: "doc"}
		if a[0] == "q" {
			_, _ = parser.ParseQueryWithTokenLimit(&ast.Source{Input: string(b0), Name: "earlier"}, l0)
			d1, e1 := parser.ParseQueryWithTokenLimit(src, l1)
			d2, e2 := parser.ParseQuery(src)
			if (e1 == nil) != (e2 == nil) {
				return "verdict-differs"
			}
			if e1 == nil && !reflect.DeepEqual(d1, d2) {
				return "tree-differs " + HexW([]byte(ast.Dump(d1))) + " " + HexW([]byte(ast.Dump(d2)))
			}
			return "same"
		}
		_, _ = parser.ParseSchemaWithLimit(&ast.Source{Input: string(b0), Name: "earlier"}, l0)
		d1, e1 := parser.ParseSchemaWithLimit(src, l1)
		d2, e2 := parser.ParseSchema(src)
		if (e1 == nil) != (e2 == nil) {
			return "verdict-differs"
		}
		if e1 == nil && !reflect.DeepEqual(d1, d2) {
			return "tree-differs " + HexW([]byte(ast.Dump(d1))) + " " + HexW([]byte(ast.Dump(d2)))
		}
		return "same"
	}
	// goquote <hex>: strconv.Quote
	Ops["goquote"] = func(a []string) string {
		b, _ := UnhexW(a[0])
		return HexW([]byte(strconv.Quote(string(b))))
	}
}
