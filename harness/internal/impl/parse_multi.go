package impl

import (
	"fmt"
	"strconv"

	"github.com/vektah/gqlparser/v2/ast"
	"github.com/vektah/gqlparser/v2/parser"
)

// ParseSchemasObs runs ParseSchemas (limit < 0) / ParseSchemasWithLimit over sources named
// s0, s1, …; positions carry the index of their source.
func ParseSchemasObs(inputs []string, limit int) string {
	srcs := make([]*ast.Source, len(inputs))
	idx := map[*ast.Source]int{}
	for i, in := range inputs {
		srcs[i] = &ast.Source{Input: in, Name: "s" + strconv.Itoa(i)}
		idx[srcs[i]] = i
	}
	var doc *ast.SchemaDocument
	var err error
	if limit < 0 {
		doc, err = parser.ParseSchemas(srcs...)
	} else {
		doc, err = parser.ParseSchemasWithLimit(limit, srcs...)
	}
	if err != nil {
		return ErrObs(err)
	}
	sx := Sx{Src: func(s *ast.Source) int { return idx[s] }}
	sx.SchemaDoc(doc)
	return sx.String()
}

func init() {
	// pss <limit|-1> <hex> <hex> …
	Ops["pss"] = func(a []string) string {
		var lim int
		fmt.Sscan(a[0], &lim)
		ins := make([]string, 0, len(a)-1)
		for _, h := range a[1:] {
			b, _ := UnhexW(h)
			ins = append(ins, string(b))
		}
		return ParseSchemasObs(ins, lim)
	}
	// psb <limit|-1> <flags: one 0/1 per source = Source.BuiltIn> <hex> <hex> …
	Ops["psb"] = func(a []string) string {
		var lim int
		fmt.Sscan(a[0], &lim)
		srcs := make([]*ast.Source, 0, len(a)-2)
		idx := map[*ast.Source]int{}
		for i, h := range a[2:] {
			b, _ := UnhexW(h)
			s := &ast.Source{Input: string(b), Name: "s" + strconv.Itoa(i), BuiltIn: i < len(a[1]) && a[1][i] == '1'}
			idx[s] = i
			srcs = append(srcs, s)
		}
		var doc *ast.SchemaDocument
		var err error
		if lim < 0 {
			doc, err = parser.ParseSchemas(srcs...)
		} else {
			doc, err = parser.ParseSchemasWithLimit(lim, srcs...)
		}
		if err != nil {
			return ErrObs(err)
		}
		sx := Sx{Src: func(s *ast.Source) int { return idx[s] }}
		sx.SchemaDoc(doc)
		return sx.String()
	}
	// goquote <hex>: strconv.Quote
	Ops["goquote"] = func(a []string) string {
		b, _ := UnhexW(a[0])
		return HexW([]byte(strconv.Quote(string(b))))
	}
}
