package impl

// Error observation ops (property C20): every entry point of the library that returns errors is
// run on the real code and every error is reported with all its attributes.
//
// Reply of every op:  OK   |   ERR;<rec>;<rec>…        (PANIC:… comes from Call)
//   <rec> = <kind>|<hex message>|<hex rule>|<locs>|<path>|<ext>|<hex json.Marshal(err)>|<hex err.Error()>
//   kind  = gql (a *gqlerror.Error) | plain (any other error: message and Error() only)
//   locs  = `-` or `line:col` joined by `,`;  path = `-` or `n<hex>` / `i<int>` joined by `,`
//   ext   = `-` (no extensions) | `f<hex>` (exactly {"file": string}) | `x<hex json>` (anything else)
//
//   elex  <name|-> <hex input>                       lexer.New(src).ReadToken until EOF or error
//   epq   <name|-> <limit|-1> <hex input>            parser.ParseQuery[WithTokenLimit]
//   eps   <name|-> <limit|-1> <hex input>            parser.ParseSchema[WithLimit]
//   eload <hex source>…                              gqlparser.LoadSchema(sources named u1, u2, …)
//   eval  <name|-> <hex schema> <hex document>       parser.ParseQuery (named source) + validator.Validate; parse errors reply PARSEERR
//   evars <hex schema> <hex document> <op index> <goval map>   validator.VariableValues
//   evalnil schema|doc                               validator.Validate with a nil schema / a nil document
//   pathdecgo <hex json>                             json.Unmarshal into an ast.Path: `ok <path>` or ERR;<rec>
//   pathrtgo <path>                                  json.Marshal(path) → json.Unmarshal: `ok <path>|<hex json>` or `E,<hex error>`
//   pathstrgo <path>                                 hex of Path.String()
//   errjsongo <hex message> <path> <locs> <ext>      json.Marshal of a hand-built *gqlerror.Error → hex
//   errstrgo  <hex message> <path> <locs> <ext>      its Error() → hex

import (
	"encoding/json"
	"fmt"
	"strconv"
	"strings"

	"github.com/vektah/gqlparser/v2/ast"
	"github.com/vektah/gqlparser/v2/gqlerror"
	"github.com/vektah/gqlparser/v2/lexer"
	"github.com/vektah/gqlparser/v2/parser"
	"github.com/vektah/gqlparser/v2/validator"
)

func PathWire(p ast.Path) string {
	if len(p) == 0 {
		return "-"
	}
	parts := make([]string, len(p))
	for i, e := range p {
		switch x := e.(type) {
		case ast.PathName:
			parts[i] = "n" + fmt.Sprintf("%x", string(x))
		case ast.PathIndex:
			parts[i] = "i" + strconv.Itoa(int(x))
		default:
			parts[i] = "?"
		}
	}
	return strings.Join(parts, ",")
}

func ParsePathWire(s string) (ast.Path, bool) {
	if s == "-" {
		return ast.Path{}, true
	}
	var p ast.Path
	for _, e := range strings.Split(s, ",") {
		switch {
		case strings.HasPrefix(e, "n"):
			b, ok := UnhexW(e[1:])
			if e == "n" {
				b, ok = nil, true
			}
			if !ok {
				return nil, false
			}
			p = append(p, ast.PathName(string(b)))
		case strings.HasPrefix(e, "i"):
			v, err := strconv.Atoi(e[1:])
			if err != nil {
				return nil, false
			}
			p = append(p, ast.PathIndex(v))
		default:
			return nil, false
		}
	}
	return p, true
}

func errRec(err error) string {
	ge, ok := err.(*gqlerror.Error)
	if ok && ge == nil {
		// a nil *gqlerror.Error inside a non-nil error value: an "error" without anything in it
		return "plain||-|-|-|-|-|"
	}
	if !ok {
		return "plain|" + HexW([]byte(err.Error())) + "|-|-|-|-|-|" + HexW([]byte(err.Error()))
	}
	locs := "-"
	if len(ge.Locations) > 0 {
		ls := make([]string, len(ge.Locations))
		for i, l := range ge.Locations {
			ls[i] = strconv.Itoa(l.Line) + ":" + strconv.Itoa(l.Column)
		}
		locs = strings.Join(ls, ",")
	}
	ext := "-"
	if len(ge.Extensions) > 0 {
		if f, isStr := ge.Extensions["file"].(string); isStr && len(ge.Extensions) == 1 {
			ext = "f" + HexW([]byte(f))
		} else {
			b, _ := json.Marshal(ge.Extensions)
			ext = "x" + HexW(b)
		}
	}
	js, jerr := json.Marshal(ge)
	jh := HexW(js)
	if jerr != nil {
		jh = "!" + HexW([]byte(jerr.Error()))
	}
	return "gql|" + HexW([]byte(ge.Message)) + "|" + HexW([]byte(ge.Rule)) + "|" + locs + "|" + PathWire(ge.Path) + "|" + ext + "|" + jh + "|" + HexW([]byte(ge.Error()))
}

func errReply(errs ...error) string {
	var recs []string
	for _, e := range errs {
		if e == nil {
			continue
		}
		if l, ok := e.(gqlerror.List); ok {
			for _, x := range l {
				recs = append(recs, errRec(x))
			}
			continue
		}
		recs = append(recs, errRec(e))
	}
	if len(recs) == 0 {
		return "OK"
	}
	return "ERR;" + strings.Join(recs, ";")
}

func srcNamed(name, hexInput string) *ast.Source {
	b, _ := UnhexW(hexInput)
	if name == "-" {
		name = ""
	}
	return &ast.Source{Name: name, Input: string(b)}
}

func buildErr(a []string) (*gqlerror.Error, bool) {
	if len(a) != 4 {
		return nil, false
	}
	msg, ok := UnhexW(a[0])
	if !ok {
		return nil, false
	}
	e := &gqlerror.Error{Message: string(msg)}
	if a[1] != "-" {
		p, ok := ParsePathWire(a[1])
		if !ok {
			return nil, false
		}
		e.Path = p
	}
	if a[2] != "-" {
		for _, lc := range strings.Split(a[2], ",") {
			p := strings.Split(lc, ":")
			if len(p) != 2 {
				return nil, false
			}
			l, err1 := strconv.Atoi(p[0])
			c, err2 := strconv.Atoi(p[1])
			if err1 != nil || err2 != nil {
				return nil, false
			}
			e.Locations = append(e.Locations, gqlerror.Location{Line: l, Column: c})
		}
	}
	if strings.HasPrefix(a[3], "f") {
		f, ok := UnhexW(a[3][1:])
		if !ok {
			return nil, false
		}
		// through SetFile when possible (the empty name leaves the map nil there)
		if len(f) > 0 {
			e.SetFile(string(f))
		} else {
			e.Extensions = map[string]interface{}{"file": ""}
		}
	} else if a[3] != "-" {
		return nil, false
	}
	return e, true
}

func init() {
	Ops["elex"] = func(a []string) string {
		lx := lexer.New(srcNamed(a[0], a[1]))
		for i := 0; i < 1<<22; i++ {
			tok, err := lx.ReadToken()
			if err != nil {
				return errReply(err)
			}
			if tok.Kind == lexer.EOF {
				return "OK"
			}
		}
		return "NOEOF"
	}
	Ops["epq"] = func(a []string) string {
		lim, _ := strconv.Atoi(a[1])
		var err error
		if lim < 0 {
			_, err = parser.ParseQuery(srcNamed(a[0], a[2]))
		} else {
			_, err = parser.ParseQueryWithTokenLimit(srcNamed(a[0], a[2]), lim)
		}
		return errReply(err)
	}
	Ops["eps"] = func(a []string) string {
		lim, _ := strconv.Atoi(a[1])
		var err error
		if lim < 0 {
			_, err = parser.ParseSchema(srcNamed(a[0], a[2]))
		} else {
			_, err = parser.ParseSchemaWithLimit(srcNamed(a[0], a[2]), lim)
		}
		return errReply(err)
	}
	Ops["eload"] = func(a []string) string {
		srcs := []*ast.Source{validator.Prelude}
		for i, h := range a {
			srcs = append(srcs, srcNamed("u"+strconv.Itoa(i+1), h))
		}
		_, err := validator.LoadSchema(srcs...)
		return errReply(err)
	}
	Ops["eval"] = func(a []string) string {
		sb, _ := UnhexW(a[1])
		c := loadCached(string(sb))
		if c.err != nil {
			return "LOADERR"
		}
		doc, err := parser.ParseQuery(srcNamed(a[0], a[2]))
		if err != nil {
			return "PARSEERR"
		}
		errs := validator.Validate(c.s, doc)
		if len(errs) == 0 {
			return "OK"
		}
		return errReply(errs)
	}
	// erules <scenario> <rule name> <doc name|-> <hex schema> <hex doc>: changes the global rule set through
	// the public registry API, validates with the default set, rebuilds the registry with AddRule.
	//   replace      ReplaceRule(name, same function)          errors of that rule must still name it
	//   replace-new  ReplaceRule("ZZNew", function of name)     = AddRule
	//   add          AddRule("ZZAdded", function of name)
	//   remove       RemoveRule(name)                           no error may name it
	Ops["erules"] = func(a []string) string {
		if len(a) != 5 {
			return "bad-args"
		}
		r, ok := RuleByName[a[1]]
		if !ok {
			return "UNKNOWN-RULE"
		}
		sb, _ := UnhexW(a[3])
		c := loadCached(string(sb))
		if c.err != nil {
			return "LOADERR"
		}
		doc, err := parser.ParseQuery(srcNamed(a[2], a[4]))
		if err != nil {
			return "PARSEERR"
		}
		defer func() {
			for _, n := range DefaultRuleNames {
				validator.RemoveRule(n)
			}
			for _, n := range []string{"ZZNew", "ZZAdded", ""} {
				validator.RemoveRule(n)
			}
			for _, n := range DefaultRuleNames {
				validator.AddRule(n, RuleByName[n].RuleFunc)
			}
		}()
		switch a[0] {
		case "replace":
			validator.ReplaceRule(a[1], r.RuleFunc)
		case "replace-new":
			validator.ReplaceRule("ZZNew", r.RuleFunc)
		case "add":
			validator.AddRule("ZZAdded", r.RuleFunc)
		case "remove":
			validator.RemoveRule(a[1])
		default:
			return "bad-scenario"
		}
		return errReply(validator.Validate(c.s, doc))
	}
	Ops["evars"] = func(a []string) string {
		if len(a) < 4 {
			return "bad-args"
		}
		sb, _ := UnhexW(a[0])
		db, _ := UnhexW(a[1])
		idx, _ := strconv.Atoi(a[2])
		c := loadCached(string(sb))
		doc, bad := loadDoc(c, string(db))
		if doc == nil {
			return bad
		}
		if idx < 0 || idx >= len(doc.Operations) {
			return "bad-op-index"
		}
		n, err := ParseSexp(strings.Join(a[3:], " "))
		if err != nil {
			return "bad-vals"
		}
		m, err := varsMapFromSexp(n)
		if err != nil {
			return "bad-vals:" + err.Error()
		}
		_, verr := validator.VariableValues(c.s, doc.Operations[idx], m)
		return errReply(verr)
	}
	Ops["evalnil"] = func(a []string) string {
		if a[0] == "schema" {
			return errReply(validator.Validate(nil, &ast.QueryDocument{}))
		}
		c := loadCached("type Query { a: Int }")
		return errReply(validator.Validate(c.s, nil))
	}
	Ops["pathdecgo"] = func(a []string) string {
		b, _ := UnhexW(a[0])
		var q ast.Path
		if err := json.Unmarshal(b, &q); err != nil {
			return errReply(err)
		}
		return "ok " + PathWire(q)
	}
	Ops["pathrtgo"] = func(a []string) string {
		p, ok := ParsePathWire(a[0])
		if !ok {
			return "bad-path"
		}
		b, err := json.Marshal(p)
		if err != nil {
			return "E," + HexW([]byte(err.Error()))
		}
		var q ast.Path
		if err := json.Unmarshal(b, &q); err != nil {
			return "E," + HexW([]byte(err.Error()))
		}
		return "ok " + PathWire(q) + "|" + HexW(b)
	}
	Ops["pathstrgo"] = func(a []string) string {
		p, ok := ParsePathWire(a[0])
		if !ok {
			return "bad-path"
		}
		return HexW([]byte(p.String()))
	}
	Ops["errjsongo"] = func(a []string) string {
		e, ok := buildErr(a)
		if !ok {
			return "bad-error"
		}
		b, err := json.Marshal(e)
		if err != nil {
			return "E," + HexW([]byte(err.Error()))
		}
		return HexW(b)
	}
	Ops["errstrgo"] = func(a []string) string {
		e, ok := buildErr(a)
		if !ok {
			return "bad-error"
		}
		return HexW([]byte(e.Error()))
	}
}
