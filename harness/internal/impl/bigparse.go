package impl

import (
	"fmt"
	"strconv"
	"strings"
	"time"

	"github.com/vektah/gqlparser/v2/ast"
	"github.com/vektah/gqlparser/v2/parser"
)

// Family builds a size-parametrised hostile input inside the worker (nothing large travels).
func Family(name string, n int) string {
	switch name {
	case "brackets":
		return "{a(b:" + strings.Repeat("[", n)
	case "objects":
		return "{a(b:" + strings.Repeat("{a:", n)
	case "selections":
		return strings.Repeat("{a", n)
	case "vartypes":
		return "query($a:" + strings.Repeat("[", n)
	case "dirlists":
		return "{a@a(a:" + strings.Repeat("[", n)
	case "tokens":
		return "{" + strings.Repeat("a ", n)
	case "comments":
		return strings.Repeat("#c\n", n) + "{a}"
	case "blockstring":
		return `{a(b:"""` + strings.Repeat("x\n", n)
	case "bigtoken":
		return "{" + strings.Repeat("a", n) + "}"
	case "types":
		return strings.Repeat("type T{a:Int}\n", n)
	case "escapes":
		return `{a(b:"` + strings.Repeat(`é`, n)
	case "balanced":
		return "{a(b:" + strings.Repeat("[", n) + strings.Repeat("]", n) + ")}"
	case "balancedsel":
		return strings.Repeat("{a", n) + strings.Repeat("}", n)
	}
	return ""
}

var Families = []string{"brackets", "objects", "selections", "vartypes", "dirlists", "tokens", "comments", "blockstring", "bigtoken", "types", "escapes", "balanced", "balancedsel"}

func init() {
	// bigparse <grammar q|s> <limit|-1> <family> <n>: parse a generated input; reply
	// "<ok|err|limit> <nanoseconds> <input bytes> <hex message>"
	Ops["bigparse"] = func(a []string) string {
		lim, _ := strconv.Atoi(a[1])
		n, _ := strconv.Atoi(a[3])
		in := Family(a[2], n)
		src := &ast.Source{Input: in, Name: "big"}
		// the smallest of up to three runs: one run can contain a garbage-collection cycle paid for
		// by building the input, which says nothing about the parser
		var err error
		var d time.Duration
		for rep := 0; rep < 3; rep++ {
			t0 := time.Now()
			switch {
			case a[0] == "q" && lim < 0:
				_, err = parser.ParseQuery(src)
			case a[0] == "q":
				_, err = parser.ParseQueryWithTokenLimit(src, lim)
			case lim < 0:
				_, err = parser.ParseSchema(src)
			default:
				_, err = parser.ParseSchemaWithLimit(src, lim)
			}
			if e := time.Since(t0); rep == 0 || e < d {
				d = e
			}
			if d > 300*time.Millisecond {
				break
			}
		}
		st, msg := "ok", ""
		if err != nil {
			st, msg = "err", err.Error()
			if strings.Contains(msg, "exceeded token limit") {
				st = "limit"
			}
		}
		return fmt.Sprintf("%s %d %d %s", st, d.Nanoseconds(), len(in), HexW([]byte(msg)))
	}
}
