package impl

import (
	"strings"

	"github.com/vektah/gqlparser/v2/ast"
	"github.com/vektah/gqlparser/v2/gqlerror"
	"github.com/vektah/gqlparser/v2/parser"
	"github.com/vektah/gqlparser/v2/validator"
	_ "github.com/vektah/gqlparser/v2/validator/rules"
)

// Ops used by the generator self-test (X-gen) and usable by any check that only needs verdicts.
//
//	genload <hex source>…            → "OK" | "E:<hex message>"
//	genval  <hex schema> <hex doc>   → "OK" | "S:<hex schema load error>" | "P:<hex parse error>"
//	                                   | "V:<rule>,<hex message>;<rule>,<hex message>;…"
//
// The schema of genval may be several sources joined by the byte 0x1e (record separator).
// Loaded schemas are cached per worker process (documents of one schema arrive together).
var genSchemaCache = map[string]*ast.Schema{}
var genSchemaErr = map[string]string{}

func genLoadCached(hexSchema string) (*ast.Schema, string) {
	if s, ok := genSchemaCache[hexSchema]; ok {
		return s, genSchemaErr[hexSchema]
	}
	if len(genSchemaCache) > 64 {
		genSchemaCache = map[string]*ast.Schema{}
		genSchemaErr = map[string]string{}
	}
	b, _ := UnhexW(hexSchema)
	s, err := LoadSchema(strings.Split(string(b), "\x1e")...)
	msg := ""
	if err != nil {
		msg = err.Error()
		if msg == "" {
			msg = "error"
		}
		s = nil
	}
	genSchemaCache[hexSchema] = s
	genSchemaErr[hexSchema] = msg
	return s, msg
}

func init() {
	Ops["genload"] = func(a []string) string {
		texts := make([]string, len(a))
		for i, h := range a {
			b, _ := UnhexW(h)
			texts[i] = string(b)
		}
		_, err := LoadSchema(texts...)
		if err != nil {
			return "E:" + HexW([]byte(err.Error()))
		}
		return "OK"
	}
	Ops["genval"] = func(a []string) string {
		if len(a) != 2 {
			return "bad-args"
		}
		s, msg := genLoadCached(a[0])
		if s == nil {
			return "S:" + HexW([]byte(msg))
		}
		db, _ := UnhexW(a[1])
		doc, err := parser.ParseQuery(&ast.Source{Name: "q", Input: string(db)})
		if err != nil {
			return "P:" + HexW([]byte(err.Error()))
		}
		var errs gqlerror.List = validator.Validate(s, doc)
		if len(errs) == 0 {
			return "OK"
		}
		var sb strings.Builder
		sb.WriteString("V:")
		for i, e := range errs {
			if i > 0 {
				sb.WriteByte(';')
			}
			sb.WriteString(e.Rule)
			sb.WriteByte(',')
			sb.WriteString(HexW([]byte(e.Message)))
		}
		return sb.String()
	}
}
