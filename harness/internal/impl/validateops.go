package impl

import (
	"encoding/hex"
	"fmt"
	"sort"
	"strconv"
	"strings"

	"github.com/vektah/gqlparser/v2/ast"
	"github.com/vektah/gqlparser/v2/gqlerror"
	"github.com/vektah/gqlparser/v2/parser"
	"github.com/vektah/gqlparser/v2/validator"
	"github.com/vektah/gqlparser/v2/validator/rules"
)

// RuleByName maps rule names to the exported Rule values of package rules.
var RuleByName = map[string]validator.Rule{}

// DefaultRuleOrder is the order in which package rules registers its rules (file-name order of
// the init() functions), recorded here by replaying Validate's own default: see init below.
var AllRuleVars = []validator.Rule{
	rules.FieldsOnCorrectTypeRule, rules.FragmentsOnCompositeTypesRule, rules.KnownArgumentNamesRule,
	rules.KnownDirectivesRule, rules.KnownFragmentNamesRule, rules.KnownRootTypeRule, rules.KnownTypeNamesRule,
	rules.LoneAnonymousOperationRule, rules.MaxIntrospectionDepth, rules.NoFragmentCyclesRule,
	rules.NoUndefinedVariablesRule, rules.NoUnusedFragmentsRule, rules.NoUnusedVariablesRule,
	rules.OverlappingFieldsCanBeMergedRule, rules.PossibleFragmentSpreadsRule, rules.ProvidedRequiredArgumentsRule,
	rules.ScalarLeafsRule, rules.SingleFieldSubscriptionsRule, rules.UniqueArgumentNamesRule,
	rules.UniqueDirectivesPerLocationRule, rules.UniqueFragmentNamesRule, rules.UniqueInputFieldNamesRule,
	rules.UniqueOperationNamesRule, rules.UniqueVariableNamesRule, rules.ValuesOfCorrectTypeRule,
	rules.VariablesAreInputTypesRule, rules.VariablesInAllowedPositionRule,
	rules.FieldsOnCorrectTypeRuleWithoutSuggestions, rules.KnownArgumentNamesRuleWithoutSuggestions,
	rules.KnownTypeNamesRuleWithoutSuggestions, rules.ValuesOfCorrectTypeRuleWithoutSuggestions,
}

// DefaultRuleNames: the 27 rules package rules registers, in registration order.
var DefaultRuleNames []string

func init() {
	for i, r := range AllRuleVars {
		RuleByName[r.Name] = r
		if i < 27 {
			DefaultRuleNames = append(DefaultRuleNames, r.Name)
		}
	}
}

// ValErrsObs renders a validation error list: `OK` or errors joined by `;`, each
// `<hex rule>,<hex message>,<line>:<col>|<line>:<col>…`.
func ValErrsObs(errs gqlerror.List) string {
	if len(errs) == 0 {
		return "OK"
	}
	parts := make([]string, len(errs))
	for i, e := range errs {
		locs := make([]string, len(e.Locations))
		for j, l := range e.Locations {
			locs[j] = strconv.Itoa(l.Line) + ":" + strconv.Itoa(l.Column)
		}
		parts[i] = HexW([]byte(e.Rule)) + "," + HexW([]byte(e.Message)) + "," + strings.Join(locs, "|")
	}
	return strings.Join(parts, ";")
}

func resolveRules(spec string) ([]validator.Rule, string) {
	if spec == "default" {
		return nil, ""
	}
	var out []validator.Rule
	for _, n := range strings.Split(spec, ",") {
		r, ok := RuleByName[n]
		if !ok {
			return nil, "UNKNOWN-RULE," + n
		}
		out = append(out, r)
	}
	return out, ""
}

func loadPair(hs, hd string) (*ast.Schema, *ast.QueryDocument, string) {
	sb, _ := UnhexW(hs)
	db, _ := UnhexW(hd)
	schema, err := LoadSchema(string(sb))
	if err != nil {
		return nil, nil, "LOADERR"
	}
	doc, err := parser.ParseQuery(&ast.Source{Input: string(db)})
	if err != nil {
		return nil, nil, "PARSEERR"
	}
	return schema, doc, ""
}

// RunValidate runs the real validator; a panic becomes `PANIC,<hex>`.
func RunValidate(schema *ast.Schema, doc *ast.QueryDocument, rs []validator.Rule) (out string) {
	defer func() {
		if r := recover(); r != nil {
			out = "PANIC," + hex.EncodeToString([]byte(fmt.Sprint(r)))
		}
	}()
	if rs == nil {
		return ValErrsObs(validator.Validate(schema, doc))
	}
	return ValErrsObs(validator.Validate(schema, doc, rs...))
}

func optName(d *ast.Definition) string {
	if d == nil {
		return "-"
	}
	return d.Name
}

type linkLine struct {
	start int
	text  string
}

// LinksObs dumps the "Require validation" links of a validated document by name: one line per
// node, sorted by (start, text), joined by `;` (Lean: Validate.linkDump).
func LinksObs(doc *ast.QueryDocument) string {
	var lines []linkLine
	add := func(p *ast.Position, text string) {
		st := 0
		if p != nil {
			st = p.Start
		}
		lines = append(lines, linkLine{st, text})
	}
	var value func(v *ast.Value)
	value = func(v *ast.Value) {
		if v == nil {
			return
		}
		for _, c := range v.Children {
			value(c.Value)
		}
		exp := "-"
		if v.ExpectedType != nil {
			exp = v.ExpectedType.String()
		}
		vn := "-"
		if v.VariableDefinition != nil {
			vn = v.VariableDefinition.Variable + "@" + strconv.Itoa(v.VariableDefinition.Position.Start)
		}
		add(v.Position, "V def="+optName(v.Definition)+" exp="+exp+" var="+vn)
	}
	dirs := func(ds ast.DirectiveList) {
		for _, d := range ds {
			for _, a := range d.Arguments {
				value(a.Value)
			}
			dn := "-"
			if d.Definition != nil {
				dn = d.Definition.Name
			}
			add(d.Position, "D def="+dn+" parent="+optName(d.ParentDefinition)+" loc="+string(d.Location))
		}
	}
	var sels func(ss ast.SelectionSet)
	sels = func(ss ast.SelectionSet) {
		for _, s := range ss {
			switch s := s.(type) {
			case *ast.Field:
				for _, a := range s.Arguments {
					value(a.Value)
				}
				dirs(s.Directives)
				sels(s.SelectionSet)
				dn := "-"
				if s.Definition != nil {
					dn = s.Definition.Name + ":" + s.Definition.Type.String()
				}
				add(s.Position, "F obj="+optName(s.ObjectDefinition)+" def="+dn)
			case *ast.InlineFragment:
				dirs(s.Directives)
				sels(s.SelectionSet)
				add(s.Position, "I obj="+optName(s.ObjectDefinition))
			case *ast.FragmentSpread:
				dirs(s.Directives)
				dn := "-"
				if s.Definition != nil {
					dn = s.Definition.Name + "@" + strconv.Itoa(s.Definition.Position.Start)
				}
				add(s.Position, "S def="+dn+" obj="+optName(s.ObjectDefinition))
			}
		}
	}
	for _, op := range doc.Operations {
		used := make([]byte, len(op.VariableDefinitions))
		for i, v := range op.VariableDefinitions {
			used[i] = '0'
			if v.Used {
				used[i] = '1'
			}
			add(v.Position, "VD def="+optName(v.Definition))
			value(v.DefaultValue)
			dirs(v.Directives)
		}
		dirs(op.Directives)
		sels(op.SelectionSet)
		add(op.Position, "O used="+string(used))
	}
	for _, f := range doc.Fragments {
		dirs(f.Directives)
		sels(f.SelectionSet)
		add(f.Position, "FD def="+optName(f.Definition))
	}
	sort.SliceStable(lines, func(i, j int) bool {
		if lines[i].start != lines[j].start {
			return lines[i].start < lines[j].start
		}
		return lines[i].text < lines[j].text
	})
	parts := make([]string, len(lines))
	for i, l := range lines {
		parts[i] = strconv.Itoa(l.start) + ":" + l.text
	}
	return strings.Join(parts, ";")
}

// EventsObs runs the real walker with one observer per event kind and records `kind@start` of
// every observer call in order (`directiveList@<len>`).
func EventsObs(schema *ast.Schema, doc *ast.QueryDocument) string {
	var out []string
	st := func(p *ast.Position) string {
		if p == nil {
			return "0"
		}
		return strconv.Itoa(p.Start)
	}
	rule := validator.Rule{Name: "events", RuleFunc: func(o *validator.Events, _ validator.AddErrFunc) {
		o.OnOperation(func(_ *validator.Walker, x *ast.OperationDefinition) { out = append(out, "operation@"+st(x.Position)) })
		o.OnField(func(_ *validator.Walker, x *ast.Field) { out = append(out, "field@"+st(x.Position)) })
		o.OnFragment(func(_ *validator.Walker, x *ast.FragmentDefinition) { out = append(out, "fragment@"+st(x.Position)) })
		o.OnInlineFragment(func(_ *validator.Walker, x *ast.InlineFragment) { out = append(out, "inlineFragment@"+st(x.Position)) })
		o.OnFragmentSpread(func(_ *validator.Walker, x *ast.FragmentSpread) { out = append(out, "fragmentSpread@"+st(x.Position)) })
		o.OnDirective(func(_ *validator.Walker, x *ast.Directive) { out = append(out, "directive@"+st(x.Position)) })
		o.OnDirectiveList(func(_ *validator.Walker, x []*ast.Directive) {
			out = append(out, "directiveList@"+strconv.Itoa(len(x)))
		})
		o.OnValue(func(_ *validator.Walker, x *ast.Value) { out = append(out, "value@"+st(x.Position)) })
		o.OnVariable(func(_ *validator.Walker, x *ast.VariableDefinition) { out = append(out, "variable@"+st(x.Position)) })
	}}
	validator.Validate(schema, doc, rule)
	return strings.Join(out, ",")
}

func init() {
	// events <hex schema SDL> <hex document>: observer calls of the real walker, in order
	Ops["events"] = func(a []string) string {
		schema, doc, e := loadPair(a[0], a[1])
		if e != "" {
			return e
		}
		return EventsObs(schema, doc)
	}
	// validate <rules> <hex schema SDL> <hex document>
	Ops["validate"] = func(a []string) string {
		rs, bad := resolveRules(a[0])
		if bad != "" {
			return bad
		}
		schema, doc, e := loadPair(a[1], a[2])
		if e != "" {
			return e
		}
		return RunValidate(schema, doc, rs)
	}
	// links <hex schema SDL> <hex document>: links written by the walker (no rule runs)
	Ops["links"] = func(a []string) string {
		schema, doc, e := loadPair(a[0], a[1])
		if e != "" {
			return e
		}
		validator.Validate(schema, doc, []validator.Rule{}...)
		return LinksObs(doc)
	}
	// valreq <hex schema SDL> <hex document>: the `(schema querydoc)` S-expression for the driver
	Ops["valreq"] = func(a []string) string {
		schema, doc, e := loadPair(a[0], a[1])
		if e != "" {
			return e
		}
		return "(" + SexpLoadedSchema(schema) + " " + SexpQuery(doc) + ")"
	}
	// vall <rules> <hex schema SDL> <hex document>: `<validate obs> # <links obs> # <events obs> # <valreq>`
	// in one call (fresh parses, so the parts are independent)
	// vshared <rules> <hex schema SDL> <hex document>: validation against the schema OBJECT this
	// process keeps for that SDL (as a server does), errors and the links left on the document
	Ops["vshared"] = func(a []string) string {
		rs, bad := resolveRules(a[0])
		if bad != "" {
			return bad
		}
		sb, _ := UnhexW(a[1])
		c := loadCached(string(sb))
		if c.err != nil {
			return "LOADERR"
		}
		db, _ := UnhexW(a[2])
		doc, err := parser.ParseQuery(&ast.Source{Input: string(db)})
		if err != nil {
			return "PARSEERR"
		}
		return RunValidate(c.s, doc, rs) + " # " + LinksObs(doc)
	}
	Ops["vall"] = func(a []string) string {
		rs, bad := resolveRules(a[0])
		if bad != "" {
			return bad
		}
		schema, doc, e := loadPair(a[1], a[2])
		if e != "" {
			return e
		}
		req := "(" + SexpLoadedSchema(schema) + " " + SexpQuery(doc) + ")"
		db, _ := UnhexW(a[2])
		doc2, _ := parser.ParseQuery(&ast.Source{Input: string(db)})
		validator.Validate(schema, doc2, []validator.Rule{}...)
		links := LinksObs(doc2)
		doc3, _ := parser.ParseQuery(&ast.Source{Input: string(db)})
		doc4, _ := parser.ParseQuery(&ast.Source{Input: string(db)})
		events := EventsObs(schema, doc4)
		errs := RunValidate(schema, doc3, rs)
		// the links a caller finds on the document are the ones left after the RULES have run: no rule may
		// change what the walker wrote (checked here, so that the walker-only dump above stays the reference)
		if after := LinksObs(doc3); after != links && !strings.HasPrefix(errs, "PANIC") {
			return "LINKS-CHANGED-BY-RULES " + HexW([]byte(firstDiff(links, after)))
		}
		return errs + " # " + links + " # " + events + " # " + req
	}
}

// firstDiff: the first `;`-separated entries at which two dumps differ.
func firstDiff(a, b string) string {
	x, y := strings.Split(a, ";"), strings.Split(b, ";")
	for i := 0; i < len(x) || i < len(y); i++ {
		var p, q string
		if i < len(x) {
			p = x[i]
		}
		if i < len(y) {
			q = y[i]
		}
		if p != q {
			return "walker alone: " + p + " / after the rules: " + q
		}
	}
	return ""
}
