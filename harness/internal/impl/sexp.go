package impl

import (
	"encoding/hex"
	"sort"
	"strconv"
	"strings"

	"github.com/vektah/gqlparser/v2/ast"
)

// Sx prints syntax trees in the canonical S-expression wire format (lean/GqlModel/Syntax/Wire.lean).
type Sx struct {
	sb  strings.Builder
	Src func(*ast.Source) int // source → index; nil means 0
	// NoPos prints every position as zero (tree comparison modulo positions)
	NoPos bool
}

func (s *Sx) String() string { return s.sb.String() }

func (s *Sx) open(tag string) { s.sb.WriteString("(" + tag) }
func (s *Sx) close()          { s.sb.WriteByte(')') }
func (s *Sx) sp()             { s.sb.WriteByte(' ') }
func (s *Sx) bytes(v string) {
	s.sp()
	s.sb.WriteByte('x')
	s.sb.WriteString(hex.EncodeToString([]byte(v)))
}
func (s *Sx) int(v int) { s.sp(); s.sb.WriteString(strconv.Itoa(v)) }
func (s *Sx) bool(v bool) {
	if v {
		s.int(1)
	} else {
		s.int(0)
	}
}

func (s *Sx) pos(p *ast.Position) {
	s.sp()
	if p == nil || s.NoPos {
		s.sb.WriteString("(p 0 0 0 0 0)")
		return
	}
	src := 0
	if s.Src != nil && p.Src != nil {
		src = s.Src(p.Src)
	}
	s.sb.WriteString("(p " + strconv.Itoa(p.Start) + " " + strconv.Itoa(p.End) + " " + strconv.Itoa(p.Line) + " " + strconv.Itoa(p.Column) + " " + strconv.Itoa(src) + ")")
}

// list prints " (" items ")" where each item printer emits its own parentheses.
func list[T any](s *Sx, xs []T, f func(T)) {
	s.sp()
	s.sb.WriteByte('(')
	for i, x := range xs {
		if i > 0 {
			s.sp()
		}
		f(x)
	}
	s.sb.WriteByte(')')
}

func (s *Sx) Type(t *ast.Type) {
	if t == nil {
		s.sb.WriteString("(nilType)")
		return
	}
	if t.NamedType != "" || t.Elem == nil {
		s.open("N")
		s.bytes(t.NamedType)
	} else {
		s.open("L")
		s.sp()
		s.Type(t.Elem)
	}
	s.bool(t.NonNull)
	s.pos(t.Position)
	s.close()
}

func (s *Sx) Value(v *ast.Value) {
	if v == nil {
		s.sb.WriteString("(nilValue)")
		return
	}
	s.open("V")
	s.int(int(v.Kind))
	s.bytes(v.Raw)
	list(s, v.Children, func(c *ast.ChildValue) {
		s.open("C")
		s.bytes(c.Name)
		s.sp()
		s.Value(c.Value)
		s.pos(c.Position)
		s.close()
	})
	s.pos(v.Position)
	s.close()
}

func (s *Sx) optValue(v *ast.Value) {
	s.sp()
	if v == nil {
		s.sb.WriteString("()")
		return
	}
	s.sb.WriteByte('(')
	s.Value(v)
	s.sb.WriteByte(')')
}

func (s *Sx) Args(as ast.ArgumentList) {
	list(s, as, func(a *ast.Argument) {
		s.open("A")
		s.bytes(a.Name)
		s.sp()
		s.Value(a.Value)
		s.pos(a.Position)
		s.close()
	})
}

func (s *Sx) Dirs(ds ast.DirectiveList) {
	list(s, ds, func(d *ast.Directive) {
		s.open("D")
		s.bytes(d.Name)
		s.Args(d.Arguments)
		s.pos(d.Position)
		s.close()
	})
}

func (s *Sx) Sels(ss ast.SelectionSet) {
	list(s, ss, func(x ast.Selection) {
		switch f := x.(type) {
		case *ast.Field:
			s.open("F")
			s.bytes(f.Alias)
			s.bytes(f.Name)
			s.Args(f.Arguments)
			s.Dirs(f.Directives)
			s.Sels(f.SelectionSet)
			s.pos(f.Position)
			s.close()
		case *ast.FragmentSpread:
			s.open("S")
			s.bytes(f.Name)
			s.Dirs(f.Directives)
			s.pos(f.Position)
			s.close()
		case *ast.InlineFragment:
			s.open("I")
			s.bytes(f.TypeCondition)
			s.Dirs(f.Directives)
			s.Sels(f.SelectionSet)
			s.pos(f.Position)
			s.close()
		default:
			s.sb.WriteString("(nilSelection)")
		}
	})
}

func (s *Sx) VarDefs(vs ast.VariableDefinitionList) {
	list(s, vs, func(v *ast.VariableDefinition) {
		s.open("VD")
		s.bytes(v.Variable)
		s.sp()
		s.Type(v.Type)
		s.optValue(v.DefaultValue)
		s.Dirs(v.Directives)
		s.pos(v.Position)
		s.close()
	})
}

func (s *Sx) QueryDoc(d *ast.QueryDocument) {
	s.open("Q")
	list(s, d.Operations, func(o *ast.OperationDefinition) {
		s.open("O")
		s.bytes(string(o.Operation))
		s.bytes(o.Name)
		s.VarDefs(o.VariableDefinitions)
		s.Dirs(o.Directives)
		s.Sels(o.SelectionSet)
		s.pos(o.Position)
		s.close()
	})
	list(s, d.Fragments, func(f *ast.FragmentDefinition) {
		s.open("FD")
		s.bytes(f.Name)
		s.VarDefs(f.VariableDefinition)
		s.bytes(f.TypeCondition)
		s.Dirs(f.Directives)
		s.Sels(f.SelectionSet)
		s.pos(f.Position)
		s.close()
	})
	s.close()
}

func (s *Sx) ArgDefs(as ast.ArgumentDefinitionList) {
	list(s, as, func(a *ast.ArgumentDefinition) {
		s.open("AD")
		s.bytes(a.Description)
		s.bytes(a.Name)
		s.optValue(a.DefaultValue)
		s.sp()
		s.Type(a.Type)
		s.Dirs(a.Directives)
		s.pos(a.Position)
		s.close()
	})
}

func strs(s *Sx, xs []string) {
	list(s, xs, func(x string) { s.sb.WriteByte('x'); s.sb.WriteString(hex.EncodeToString([]byte(x))) })
}

var defKinds = map[ast.DefinitionKind]int{ast.Scalar: 0, ast.Object: 1, ast.Interface: 2, ast.Union: 3, ast.Enum: 4, ast.InputObject: 5}

func (s *Sx) Definition(d *ast.Definition) {
	s.open("DF")
	s.int(defKinds[d.Kind])
	s.bytes(d.Description)
	s.bytes(d.Name)
	s.Dirs(d.Directives)
	strs(s, d.Interfaces)
	list(s, d.Fields, func(f *ast.FieldDefinition) {
		s.open("FL")
		s.bytes(f.Description)
		s.bytes(f.Name)
		s.ArgDefs(f.Arguments)
		s.optValue(f.DefaultValue)
		s.sp()
		s.Type(f.Type)
		s.Dirs(f.Directives)
		s.pos(f.Position)
		s.close()
	})
	strs(s, d.Types)
	list(s, d.EnumValues, func(e *ast.EnumValueDefinition) {
		s.open("EV")
		s.bytes(e.Description)
		s.bytes(e.Name)
		s.Dirs(e.Directives)
		s.pos(e.Position)
		s.close()
	})
	s.pos(d.Position)
	s.bool(d.BuiltIn)
	s.close()
}

func (s *Sx) DirectiveDef(d *ast.DirectiveDefinition) {
	s.open("DD")
	s.bytes(d.Description)
	s.bytes(d.Name)
	s.ArgDefs(d.Arguments)
	locs := make([]string, len(d.Locations))
	for i, l := range d.Locations {
		locs[i] = string(l)
	}
	strs(s, locs)
	s.bool(d.IsRepeatable)
	s.pos(d.Position)
	s.close()
}

func (s *Sx) SchemaDefs(ds ast.SchemaDefinitionList) {
	list(s, ds, func(d *ast.SchemaDefinition) {
		s.open("SD")
		s.bytes(d.Description)
		s.Dirs(d.Directives)
		list(s, d.OperationTypes, func(o *ast.OperationTypeDefinition) {
			s.open("OT")
			s.bytes(string(o.Operation))
			s.bytes(o.Type)
			s.pos(o.Position)
			s.close()
		})
		s.pos(d.Position)
		s.close()
	})
}

func (s *Sx) SchemaDoc(d *ast.SchemaDocument) {
	s.open("SDOC")
	s.SchemaDefs(d.Schema)
	s.SchemaDefs(d.SchemaExtension)
	list(s, d.Directives, s.DirectiveDef)
	list(s, d.Definitions, s.Definition)
	list(s, d.Extensions, s.Definition)
	s.close()
}

func SexpQuery(d *ast.QueryDocument) string   { var s Sx; s.QueryDoc(d); return s.String() }
func SexpSchema(d *ast.SchemaDocument) string { var s Sx; s.SchemaDoc(d); return s.String() }

// LoadedSchema prints a loaded *ast.Schema (maps sorted by key; relation lists in stored order,
// by name). A nil entry in a relation list prints as the name "<nil>".
func (s *Sx) LoadedSchema(sc *ast.Schema) {
	s.open("SCHEMA")
	root := func(d *ast.Definition) {
		s.sp()
		if d == nil {
			s.sb.WriteString("()")
		} else {
			s.sb.WriteString("(x" + hex.EncodeToString([]byte(d.Name)) + ")")
		}
	}
	root(sc.Query)
	root(sc.Mutation)
	root(sc.Subscription)
	s.Dirs(sc.SchemaDirectives)
	tn := make([]string, 0, len(sc.Types))
	for k := range sc.Types {
		tn = append(tn, k)
	}
	sort.Strings(tn)
	list(s, tn, func(k string) { s.Definition(sc.Types[k]) })
	dn := make([]string, 0, len(sc.Directives))
	for k := range sc.Directives {
		dn = append(dn, k)
	}
	sort.Strings(dn)
	list(s, dn, func(k string) { s.DirectiveDef(sc.Directives[k]) })
	rel := func(m map[string][]*ast.Definition) {
		ks := make([]string, 0, len(m))
		for k := range m {
			ks = append(ks, k)
		}
		sort.Strings(ks)
		list(s, ks, func(k string) {
			s.sb.WriteString("(x" + hex.EncodeToString([]byte(k)))
			names := make([]string, len(m[k]))
			for i, d := range m[k] {
				if d == nil {
					names[i] = "<nil>"
				} else {
					names[i] = d.Name
				}
			}
			strs(s, names)
			s.sb.WriteByte(')')
		})
	}
	rel(sc.PossibleTypes)
	rel(sc.Implements)
	s.bytes(sc.Description)
	s.close()
}

func SexpLoadedSchema(sc *ast.Schema) string { var s Sx; s.LoadedSchema(sc); return s.String() }
