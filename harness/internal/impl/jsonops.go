package impl

// JSON round trip of executable documents (property C19) on the real library.
//
//   jsonrt  <hex document text>
//       parse with the real parser, json.Marshal, json.Unmarshal into a fresh ast.QueryDocument.
//       reply  <parsed tree sexp (with positions)>|<hex of the JSON text>|<sexp of the decoded
//       document, positions zero, or E,<hex error>>|<comma separated loss classes or ->|<shape statistics>|<same|differs:
//       the canonical trees of the parsed and of the decoded document, positions zeroed, compared as a whole>
//       or PARSEERR when the text does not parse.  Shape statistics (generator coverage of C19):
//       md=<max depth> fd/sd/id=<max depth of a field / spread / inline fragment> notc=<inline fragments
//       without type condition> sdir/idir=<spreads / inline fragments with directives> aeq/ane=<fields whose
//       alias equals / differs from the name> bi4/tri4=<'+'-joined windows of 2 / 3 sibling kinds (F S I)
//       seen at depth >= 4>.
//   jsonrtlegacytop <hex document text>
//       self-test of the kind comparison: the same round trip, but the top-level selection sets are
//       decoded the way decode.go did before its repair (every item as a Field).  reply  <loss classes>.
//   jsondec <hex JSON text>
//       json.Unmarshal of the text into a fresh ast.QueryDocument.
//       reply  <sexp of the decoded document, positions zero> | E,<hex error> | OUTSIDE (the decoded
//       document is not a value of the tree type of the model: a nil pointer inside a list, an argument or
//       object field without Value, a variable definition without Type, a Kind outside 0..9, a non-nil
//       validation link / Comment / Position).
//   jsonrtv <hex schema text> <hex document text>
//       the same after validator.Validate(schema, doc) (the document now carries the
//       "Require validation" links, which are encoded too).
//       reply  <valid|invalid>|<length of the JSON text>|<ok or E,<hex error>>|<loss classes or ->
//       or LOADERR / PARSEERR / VALPANIC (the validator itself panicked: property C02).
//   jsonstrgo <hex>   → hex of json.Marshal(string) ;  jsonsango <hex> → hex of the string read back
//
// Loss classes (direct check of the property on the two Go trees): selection-kind, name, alias,
// arguments, value, directives, type-condition, selections (count), operations, fragments,
// operation-type, variable-definitions, type.

import (
	"bytes"
	"encoding/hex"
	"encoding/json"
	"fmt"
	"io"
	"regexp"
	"sort"
	"strconv"
	"strings"

	"github.com/vektah/gqlparser/v2/ast"
	"github.com/vektah/gqlparser/v2/parser"
	"github.com/vektah/gqlparser/v2/validator"
)

type lossSet map[string]bool

func (l lossSet) String() string {
	if len(l) == 0 {
		return "-"
	}
	ks := make([]string, 0, len(l))
	for k := range l {
		ks = append(ks, k)
	}
	sort.Strings(ks)
	return strings.Join(ks, ",")
}

func typeEq(a, b *ast.Type) bool {
	if a == nil || b == nil {
		return a == b
	}
	return a.NamedType == b.NamedType && a.NonNull == b.NonNull && typeEq(a.Elem, b.Elem)
}

func (l lossSet) value(a, b *ast.Value) {
	if a == nil || b == nil {
		if a != b {
			l["value"] = true
		}
		return
	}
	if a.Kind != b.Kind || a.Raw != b.Raw || len(a.Children) != len(b.Children) {
		l["value"] = true
		return
	}
	for i := range a.Children {
		if a.Children[i] == nil || b.Children[i] == nil {
			if a.Children[i] != b.Children[i] {
				l["value"] = true
			}
			continue
		}
		if a.Children[i].Name != b.Children[i].Name {
			l["value"] = true
		}
		l.value(a.Children[i].Value, b.Children[i].Value)
	}
}

func (l lossSet) args(a, b ast.ArgumentList) {
	if len(a) != len(b) {
		l["arguments"] = true
		return
	}
	for i := range a {
		if a[i] == nil || b[i] == nil {
			if a[i] != b[i] {
				l["arguments"] = true
			}
			continue
		}
		if a[i].Name != b[i].Name {
			l["arguments"] = true
		}
		l.value(a[i].Value, b[i].Value)
	}
}

func (l lossSet) dirs(a, b ast.DirectiveList) {
	if len(a) != len(b) {
		l["directives"] = true
		return
	}
	for i := range a {
		if a[i] == nil || b[i] == nil {
			if a[i] != b[i] {
				l["directives"] = true
			}
			continue
		}
		if a[i].Name != b[i].Name {
			l["directives"] = true
		}
		l.args(a[i].Arguments, b[i].Arguments)
	}
}

func (l lossSet) sels(a, b ast.SelectionSet) {
	if len(a) != len(b) {
		l["selections"] = true
	}
	for i := range a {
		if i >= len(b) {
			break
		}
		switch x := a[i].(type) {
		case *ast.Field:
			y, ok := b[i].(*ast.Field)
			if !ok {
				l["selection-kind"] = true
				continue
			}
			if x.Name != y.Name {
				l["name"] = true
			}
			if x.Alias != y.Alias {
				l["alias"] = true
			}
			l.args(x.Arguments, y.Arguments)
			l.dirs(x.Directives, y.Directives)
			l.sels(x.SelectionSet, y.SelectionSet)
		case *ast.FragmentSpread:
			y, ok := b[i].(*ast.FragmentSpread)
			if !ok {
				l["selection-kind"] = true
				// what can still be compared: the name and directives the impostor carries
				if f, isF := b[i].(*ast.Field); isF {
					if f.Name != x.Name {
						l["name"] = true
					}
					l.dirs(x.Directives, f.Directives)
				}
				continue
			}
			if x.Name != y.Name {
				l["name"] = true
			}
			l.dirs(x.Directives, y.Directives)
		case *ast.InlineFragment:
			y, ok := b[i].(*ast.InlineFragment)
			if !ok {
				l["selection-kind"] = true
				if f, isF := b[i].(*ast.Field); isF {
					l.dirs(x.Directives, f.Directives)
					l.sels(x.SelectionSet, f.SelectionSet)
				}
				continue
			}
			if x.TypeCondition != y.TypeCondition {
				l["type-condition"] = true
			}
			l.dirs(x.Directives, y.Directives)
			l.sels(x.SelectionSet, y.SelectionSet)
		}
	}
}

func (l lossSet) varDefs(a, b ast.VariableDefinitionList) {
	if len(a) != len(b) {
		l["variable-definitions"] = true
		return
	}
	for i := range a {
		if a[i] == nil || b[i] == nil {
			if a[i] != b[i] {
				l["variable-definitions"] = true
			}
			continue
		}
		if a[i].Variable != b[i].Variable {
			l["variable-definitions"] = true
		}
		if !typeEq(a[i].Type, b[i].Type) {
			l["type"] = true
		}
		l.value(a[i].DefaultValue, b[i].DefaultValue)
		l.dirs(a[i].Directives, b[i].Directives)
	}
}

// DocLoss compares a document with its JSON round trip, clause by clause of property C19.
func DocLoss(a, b *ast.QueryDocument) lossSet {
	l := lossSet{}
	if len(a.Operations) != len(b.Operations) {
		l["operations"] = true
	}
	if len(a.Fragments) != len(b.Fragments) {
		l["fragments"] = true
	}
	for i, x := range a.Operations {
		if i >= len(b.Operations) || b.Operations[i] == nil {
			break
		}
		y := b.Operations[i]
		if x.Operation != y.Operation {
			l["operation-type"] = true
		}
		if x.Name != y.Name {
			l["name"] = true
		}
		l.varDefs(x.VariableDefinitions, y.VariableDefinitions)
		l.dirs(x.Directives, y.Directives)
		l.sels(x.SelectionSet, y.SelectionSet)
	}
	for i, x := range a.Fragments {
		if i >= len(b.Fragments) || b.Fragments[i] == nil {
			break
		}
		y := b.Fragments[i]
		if x.Name != y.Name {
			l["name"] = true
		}
		if x.TypeCondition != y.TypeCondition {
			l["type-condition"] = true
		}
		l.varDefs(x.VariableDefinition, y.VariableDefinition)
		l.dirs(x.Directives, y.Directives)
		l.sels(x.SelectionSet, y.SelectionSet)
	}
	return l
}

/* ---------------- shape statistics ---------------- */

type shapeStats struct {
	md, fd, sd, id                        int
	notc, sdir, idir, aeq, ane, fsel, flf int
	bi4, tri4                             map[string]bool
}

func kindLetter(x ast.Selection) byte {
	switch x.(type) {
	case *ast.Field:
		return 'F'
	case *ast.FragmentSpread:
		return 'S'
	case *ast.InlineFragment:
		return 'I'
	}
	return '?'
}

func (st *shapeStats) walk(ss ast.SelectionSet, depth int) {
	if len(ss) == 0 {
		return
	}
	if depth > st.md {
		st.md = depth
	}
	ks := make([]byte, len(ss))
	for i, x := range ss {
		ks[i] = kindLetter(x)
	}
	if depth >= 4 {
		for i := 0; i+2 <= len(ks); i++ {
			st.bi4[string(ks[i:i+2])] = true
		}
		for i := 0; i+3 <= len(ks); i++ {
			st.tri4[string(ks[i:i+3])] = true
		}
	}
	for _, x := range ss {
		switch f := x.(type) {
		case *ast.Field:
			if depth > st.fd {
				st.fd = depth
			}
			if f.Alias == f.Name {
				st.aeq++
			} else {
				st.ane++
			}
			if len(f.SelectionSet) > 0 {
				st.fsel++
			} else {
				st.flf++
			}
			st.walk(f.SelectionSet, depth+1)
		case *ast.FragmentSpread:
			if depth > st.sd {
				st.sd = depth
			}
			if len(f.Directives) > 0 {
				st.sdir++
			}
		case *ast.InlineFragment:
			if depth > st.id {
				st.id = depth
			}
			if f.TypeCondition == "" {
				st.notc++
			}
			if len(f.Directives) > 0 {
				st.idir++
			}
			st.walk(f.SelectionSet, depth+1)
		}
	}
}

func setString(m map[string]bool) string {
	ks := make([]string, 0, len(m))
	for k := range m {
		ks = append(ks, k)
	}
	sort.Strings(ks)
	return strings.Join(ks, "+")
}

// DocShape computes the shape statistics of a parsed document (see the header).
func DocShape(doc *ast.QueryDocument) string {
	st := &shapeStats{bi4: map[string]bool{}, tri4: map[string]bool{}}
	for _, o := range doc.Operations {
		st.walk(o.SelectionSet, 1)
	}
	for _, f := range doc.Fragments {
		st.walk(f.SelectionSet, 1)
	}
	return fmt.Sprintf("md=%d fd=%d sd=%d id=%d notc=%d sdir=%d idir=%d aeq=%d ane=%d fsel=%d flf=%d bi4=%s tri4=%s",
		st.md, st.fd, st.sd, st.id, st.notc, st.sdir, st.idir, st.aeq, st.ane, st.fsel, st.flf, setString(st.bi4), setString(st.tri4))
}

/* ---------------- generic JSON trees (inputs of the decoder correspondence) ---------------- */

// JNode is a JSON value with ordered object keys; numbers are kept as their literal.
type JNode struct {
	K   byte // n(ull) t(rue) f(alse) i (number literal) s(tring) a(rray) o(bject)
	S   string
	A   []*JNode
	Key []string // object keys, parallel to A
}

var intLit = regexp.MustCompile(`^-?(0|[1-9][0-9]*)$`)

// ParseJSONTree reads one JSON value, keeping key order and duplicate keys.
func ParseJSONTree(text []byte) (*JNode, error) {
	dec := json.NewDecoder(bytes.NewReader(text))
	dec.UseNumber()
	n, err := parseJNode(dec)
	if err != nil {
		return nil, err
	}
	if _, err := dec.Token(); err != io.EOF {
		return nil, fmt.Errorf("trailing data")
	}
	return n, nil
}

func parseJNode(dec *json.Decoder) (*JNode, error) {
	tok, err := dec.Token()
	if err != nil {
		return nil, err
	}
	switch t := tok.(type) {
	case nil:
		return &JNode{K: 'n'}, nil
	case bool:
		if t {
			return &JNode{K: 't'}, nil
		}
		return &JNode{K: 'f'}, nil
	case json.Number:
		return &JNode{K: 'i', S: string(t)}, nil
	case string:
		return &JNode{K: 's', S: t}, nil
	case json.Delim:
		switch t {
		case '[':
			n := &JNode{K: 'a'}
			for dec.More() {
				c, err := parseJNode(dec)
				if err != nil {
					return nil, err
				}
				n.A = append(n.A, c)
			}
			_, err := dec.Token()
			return n, err
		case '{':
			n := &JNode{K: 'o'}
			for dec.More() {
				kt, err := dec.Token()
				if err != nil {
					return nil, err
				}
				k, ok := kt.(string)
				if !ok {
					return nil, fmt.Errorf("key is not a string")
				}
				c, err := parseJNode(dec)
				if err != nil {
					return nil, err
				}
				n.Key = append(n.Key, k)
				n.A = append(n.A, c)
			}
			_, err := dec.Token()
			return n, err
		}
	}
	return nil, fmt.Errorf("unexpected token %v", tok)
}

// Text renders the tree as JSON text.
func (n *JNode) Text(sb *strings.Builder) {
	switch n.K {
	case 'n':
		sb.WriteString("null")
	case 't':
		sb.WriteString("true")
	case 'f':
		sb.WriteString("false")
	case 'i':
		sb.WriteString(n.S)
	case 's':
		b, _ := json.Marshal(n.S)
		sb.Write(b)
	case 'a':
		sb.WriteByte('[')
		for i, c := range n.A {
			if i > 0 {
				sb.WriteByte(',')
			}
			c.Text(sb)
		}
		sb.WriteByte(']')
	case 'o':
		sb.WriteByte('{')
		for i, c := range n.A {
			if i > 0 {
				sb.WriteByte(',')
			}
			b, _ := json.Marshal(n.Key[i])
			sb.Write(b)
			sb.WriteByte(':')
			c.Text(sb)
		}
		sb.WriteByte('}')
	}
}

// Sexp renders the tree for the driver op jsondec; ok is false when the tree is outside what the
// model's Json type holds (a number that is not an integer literal).
func (n *JNode) Sexp(sb *strings.Builder) (ok bool) {
	switch n.K {
	case 'n':
		sb.WriteString("N")
	case 't':
		sb.WriteString("T")
	case 'f':
		sb.WriteString("F")
	case 'i':
		if !intLit.MatchString(n.S) || len(n.S) > 18 {
			return false
		}
		if n.S == "-0" {
			sb.WriteString("0")
		} else {
			sb.WriteString(n.S)
		}
	case 's':
		sb.WriteString("x" + hex.EncodeToString([]byte(n.S)))
	case 'a':
		sb.WriteString("(A")
		for _, c := range n.A {
			sb.WriteByte(' ')
			if !c.Sexp(sb) {
				return false
			}
		}
		sb.WriteByte(')')
	case 'o':
		sb.WriteString("(O")
		for i, c := range n.A {
			sb.WriteString(" x" + hex.EncodeToString([]byte(n.Key[i])) + " ")
			if !c.Sexp(sb) {
				return false
			}
		}
		sb.WriteByte(')')
	}
	return true
}

func outsideValue(v *ast.Value) bool {
	if v == nil || v.Kind < 0 || v.Kind > 9 || v.Comment != nil || v.Definition != nil || v.VariableDefinition != nil || v.ExpectedType != nil {
		return true
	}
	for _, c := range v.Children {
		if c == nil || c.Comment != nil || outsideValue(c.Value) {
			return true
		}
	}
	return false
}

func outsideArgs(as ast.ArgumentList) bool {
	for _, a := range as {
		if a == nil || a.Comment != nil || outsideValue(a.Value) {
			return true
		}
	}
	return false
}

func outsideDirs(ds ast.DirectiveList) bool {
	for _, d := range ds {
		if d == nil || d.ParentDefinition != nil || d.Definition != nil || outsideArgs(d.Arguments) {
			return true
		}
	}
	return false
}

func outsideSels(ss ast.SelectionSet) bool {
	for _, x := range ss {
		switch f := x.(type) {
		case *ast.Field:
			if f == nil || f.Definition != nil || f.ObjectDefinition != nil || f.Position != nil || f.Comment != nil ||
				outsideArgs(f.Arguments) || outsideDirs(f.Directives) || outsideSels(f.SelectionSet) {
				return true
			}
		case *ast.FragmentSpread:
			if f == nil || f.Definition != nil || f.ObjectDefinition != nil || f.Comment != nil || outsideDirs(f.Directives) {
				return true
			}
		case *ast.InlineFragment:
			if f == nil || f.ObjectDefinition != nil || f.Position != nil || f.Comment != nil || outsideDirs(f.Directives) || outsideSels(f.SelectionSet) {
				return true
			}
		default:
			return true
		}
	}
	return false
}

func outsideVarDefs(vs ast.VariableDefinitionList) bool {
	for _, v := range vs {
		if v == nil || v.Type == nil || v.Comment != nil || v.Definition != nil || (v.DefaultValue != nil && outsideValue(v.DefaultValue)) || outsideDirs(v.Directives) {
			return true
		}
	}
	return false
}

// outsideTree: the document is not a value of the tree type of the model (see jsondec)
func outsideTree(d *ast.QueryDocument) bool {
	if d.Comment != nil {
		return true
	}
	for _, o := range d.Operations {
		if o == nil || o.Position != nil || o.Comment != nil || outsideVarDefs(o.VariableDefinitions) || outsideDirs(o.Directives) || outsideSels(o.SelectionSet) {
			return true
		}
	}
	for _, f := range d.Fragments {
		if f == nil || f.Definition != nil || f.Position != nil || f.Comment != nil || outsideVarDefs(f.VariableDefinition) || outsideDirs(f.Directives) || outsideSels(f.SelectionSet) {
			return true
		}
	}
	return false
}

// legacyTop re-decodes the top-level selection sets of the JSON text the way UnmarshalSelectionSet
// did before its repair: every item through the Field decoder.
func legacyTop(text []byte, back *ast.QueryDocument) {
	var raw struct {
		Operations []struct{ SelectionSet []json.RawMessage }
		Fragments  []struct{ SelectionSet []json.RawMessage }
	}
	if json.Unmarshal(text, &raw) != nil {
		return
	}
	redo := func(items []json.RawMessage) ast.SelectionSet {
		out := ast.SelectionSet{}
		for _, it := range items {
			var f ast.Field
			if json.Unmarshal(it, &f) == nil {
				out = append(out, &f)
			}
		}
		return out
	}
	for i := range raw.Operations {
		if i < len(back.Operations) && back.Operations[i] != nil {
			back.Operations[i].SelectionSet = redo(raw.Operations[i].SelectionSet)
		}
	}
	for i := range raw.Fragments {
		if i < len(back.Fragments) && back.Fragments[i] != nil {
			back.Fragments[i].SelectionSet = redo(raw.Fragments[i].SelectionSet)
		}
	}
}

func jsonRoundTrip(doc *ast.QueryDocument) (text []byte, back *ast.QueryDocument, err error) {
	text, err = json.Marshal(doc)
	if err != nil {
		return nil, nil, err
	}
	back = &ast.QueryDocument{}
	if err = json.Unmarshal(text, back); err != nil {
		return text, nil, err
	}
	return text, back, nil
}

func init() {
	Ops["jsonrt"] = func(a []string) string {
		b, _ := UnhexW(a[0])
		doc, err := parser.ParseQuery(&ast.Source{Input: string(b), Name: "s0"})
		if err != nil {
			return "PARSEERR"
		}
		sx := SexpQuery(doc)
		text, back, err := jsonRoundTrip(doc)
		if err != nil {
			return sx + "|" + HexW(text) + "|E," + HexW([]byte(err.Error())) + "|-|" + DocShape(doc) + "|-"
		}
		s := Sx{NoPos: true}
		s.QueryDoc(back)
		// the canonical trees with positions zeroed, compared as a whole (independent of DocLoss)
		o := Sx{NoPos: true}
		o.QueryDoc(doc)
		whole := "same"
		if o.String() != s.String() {
			whole = "differs"
		}
		return sx + "|" + HexW(text) + "|" + s.String() + "|" + DocLoss(doc, back).String() + "|" + DocShape(doc) + "|" + whole
	}
	Ops["jsonrtlegacytop"] = func(a []string) string {
		b, _ := UnhexW(a[0])
		doc, err := parser.ParseQuery(&ast.Source{Input: string(b), Name: "s0"})
		if err != nil {
			return "PARSEERR"
		}
		text, back, err := jsonRoundTrip(doc)
		if err != nil {
			return "E"
		}
		legacyTop(text, back)
		return DocLoss(doc, back).String()
	}
	Ops["jsondec"] = func(a []string) (out string) {
		b, _ := UnhexW(a[0])
		back := &ast.QueryDocument{}
		if err := json.Unmarshal(b, back); err != nil {
			return "E," + HexW([]byte(err.Error()))
		}
		defer func() {
			if recover() != nil {
				out = "OUTSIDE"
			}
		}()
		if outsideTree(back) {
			return "OUTSIDE"
		}
		s := Sx{NoPos: true}
		s.QueryDoc(back)
		return s.String()
	}
	Ops["jsonrtv"] = func(a []string) string {
		schema, doc, bad := loadPair(a[0], a[1])
		if bad != "" {
			return bad
		}
		verdict := "valid"
		if panicked := func() (p bool) {
			defer func() {
				if recover() != nil {
					p = true
				}
			}()
			if errs := validator.Validate(schema, doc); len(errs) > 0 {
				verdict = "invalid"
			}
			return false
		}(); panicked {
			return "VALPANIC" // a validator panic is C02's business
		}
		text, back, err := jsonRoundTrip(doc)
		if err != nil {
			return verdict + "|" + strconv.Itoa(len(text)) + "|E," + HexW([]byte(err.Error())) + "|-"
		}
		return verdict + "|" + strconv.Itoa(len(text)) + "|ok|" + DocLoss(doc, back).String()
	}
	// jsonrtvv <hex schema> <hex document>: validation alone (valid | invalid | VALPANIC | LOADERR | PARSEERR); a fatal
	// error here (stack overflow of a rule) tells the check that a crash of jsonrtv is the validator's (C02)
	Ops["jsonrtvv"] = func(a []string) string {
		schema, doc, bad := loadPair(a[0], a[1])
		if bad != "" {
			return bad
		}
		verdict := "valid"
		if panicked := func() (p bool) {
			defer func() {
				if recover() != nil {
					p = true
				}
			}()
			if errs := validator.Validate(schema, doc); len(errs) > 0 {
				verdict = "invalid"
			}
			return false
		}(); panicked {
			return "VALPANIC"
		}
		return verdict
	}
	Ops["jsonstrgo"] = func(a []string) string {
		b, _ := UnhexW(a[0])
		out, err := json.Marshal(string(b))
		if err != nil {
			return "E," + HexW([]byte(err.Error()))
		}
		return HexW(out)
	}
	Ops["jsonsango"] = func(a []string) string {
		b, _ := UnhexW(a[0])
		out, err := json.Marshal(string(b))
		if err != nil {
			return "E," + HexW([]byte(err.Error()))
		}
		var s string
		if err := json.Unmarshal(out, &s); err != nil {
			return "E," + HexW([]byte(err.Error()))
		}
		return HexW([]byte(s))
	}
}
