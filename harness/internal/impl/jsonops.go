package impl

// JSON round trip of executable documents (property C19) on the real library.
//
//   jsonrt  <hex document text>
//       parse with the real parser, json.Marshal, json.Unmarshal into a fresh ast.QueryDocument.
//       reply  <parsed tree sexp (with positions)>|<hex of the JSON text>|<sexp of the decoded
//       document, positions zero, or E,<hex error>>|<comma separated loss classes or ->
//       or PARSEERR when the text does not parse.
//   jsonrtv <hex schema text> <hex document text>
//       the same after validator.Validate(schema, doc) (the document now carries the
//       "Require validation" links, which are encoded too).
//       reply  <valid|invalid>|<length of the JSON text>|<ok or E,<hex error>>|<loss classes or ->
//       or LOADERR / PARSEERR / VALPANIC (the validator itself panicked: property C02).
//   jsonstrgo <hex>   → hex of json.Marshal(string) ;  jsonsango <hex> → hex of the string read back
//
// Loss classes (direct check of the property on the two Go trees): selection-kind, name, alias,
// arguments, value, directives, type-condition, selections (count), operations, fragments,
// operation-type, variable-definitions, type.

import (
	"encoding/json"
	"sort"
	"strconv"
	"strings"

	"github.com/vektah/gqlparser/v2/ast"
	"github.com/vektah/gqlparser/v2/parser"
	"github.com/vektah/gqlparser/v2/validator"
)

type lossSet map[string]bool

func (l lossSet) String() string {
	if len(l) == 0 {
		return "-"
	}
	ks := make([]string, 0, len(l))
	for k := range l {
		ks = append(ks, k)
	}
	sort.Strings(ks)
	return strings.Join(ks, ",")
}

func typeEq(a, b *ast.Type) bool {
	if a == nil || b == nil {
		return a == b
	}
	return a.NamedType == b.NamedType && a.NonNull == b.NonNull && typeEq(a.Elem, b.Elem)
}

func (l lossSet) value(a, b *ast.Value) {
	if a == nil || b == nil {
		if a != b {
			l["value"] = true
		}
		return
	}
	if a.Kind != b.Kind || a.Raw != b.Raw || len(a.Children) != len(b.Children) {
		l["value"] = true
		return
	}
	for i := range a.Children {
		if a.Children[i] == nil || b.Children[i] == nil {
			if a.Children[i] != b.Children[i] {
				l["value"] = true
			}
			continue
		}
		if a.Children[i].Name != b.Children[i].Name {
			l["value"] = true
		}
		l.value(a.Children[i].Value, b.Children[i].Value)
	}
}

func (l lossSet) args(a, b ast.ArgumentList) {
	if len(a) != len(b) {
		l["arguments"] = true
		return
	}
	for i := range a {
		if a[i] == nil || b[i] == nil {
			if a[i] != b[i] {
				l["arguments"] = true
			}
			continue
		}
		if a[i].Name != b[i].Name {
			l["arguments"] = true
		}
		l.value(a[i].Value, b[i].Value)
	}
}

func (l lossSet) dirs(a, b ast.DirectiveList) {
	if len(a) != len(b) {
		l["directives"] = true
		return
	}
	for i := range a {
		if a[i] == nil || b[i] == nil {
			if a[i] != b[i] {
				l["directives"] = true
			}
			continue
		}
		if a[i].Name != b[i].Name {
			l["directives"] = true
		}
		l.args(a[i].Arguments, b[i].Arguments)
	}
}

func (l lossSet) sels(a, b ast.SelectionSet) {
	if len(a) != len(b) {
		l["selections"] = true
	}
	for i := range a {
		if i >= len(b) {
			break
		}
		switch x := a[i].(type) {
		case *ast.Field:
			y, ok := b[i].(*ast.Field)
			if !ok {
				l["selection-kind"] = true
				continue
			}
			if x.Name != y.Name {
				l["name"] = true
			}
			if x.Alias != y.Alias {
				l["alias"] = true
			}
			l.args(x.Arguments, y.Arguments)
			l.dirs(x.Directives, y.Directives)
			l.sels(x.SelectionSet, y.SelectionSet)
		case *ast.FragmentSpread:
			y, ok := b[i].(*ast.FragmentSpread)
			if !ok {
				l["selection-kind"] = true
				// what can still be compared: the name and directives the impostor carries
				if f, isF := b[i].(*ast.Field); isF {
					if f.Name != x.Name {
						l["name"] = true
					}
					l.dirs(x.Directives, f.Directives)
				}
				continue
			}
			if x.Name != y.Name {
				l["name"] = true
			}
			l.dirs(x.Directives, y.Directives)
		case *ast.InlineFragment:
			y, ok := b[i].(*ast.InlineFragment)
			if !ok {
				l["selection-kind"] = true
				if f, isF := b[i].(*ast.Field); isF {
					l.dirs(x.Directives, f.Directives)
					l.sels(x.SelectionSet, f.SelectionSet)
				}
				continue
			}
			if x.TypeCondition != y.TypeCondition {
				l["type-condition"] = true
			}
			l.dirs(x.Directives, y.Directives)
			l.sels(x.SelectionSet, y.SelectionSet)
		}
	}
}

func (l lossSet) varDefs(a, b ast.VariableDefinitionList) {
	if len(a) != len(b) {
		l["variable-definitions"] = true
		return
	}
	for i := range a {
		if a[i] == nil || b[i] == nil {
			if a[i] != b[i] {
				l["variable-definitions"] = true
			}
			continue
		}
		if a[i].Variable != b[i].Variable {
			l["variable-definitions"] = true
		}
		if !typeEq(a[i].Type, b[i].Type) {
			l["type"] = true
		}
		l.value(a[i].DefaultValue, b[i].DefaultValue)
		l.dirs(a[i].Directives, b[i].Directives)
	}
}

// DocLoss compares a document with its JSON round trip, clause by clause of property C19.
func DocLoss(a, b *ast.QueryDocument) lossSet {
	l := lossSet{}
	if len(a.Operations) != len(b.Operations) {
		l["operations"] = true
	}
	if len(a.Fragments) != len(b.Fragments) {
		l["fragments"] = true
	}
	for i, x := range a.Operations {
		if i >= len(b.Operations) || b.Operations[i] == nil {
			break
		}
		y := b.Operations[i]
		if x.Operation != y.Operation {
			l["operation-type"] = true
		}
		if x.Name != y.Name {
			l["name"] = true
		}
		l.varDefs(x.VariableDefinitions, y.VariableDefinitions)
		l.dirs(x.Directives, y.Directives)
		l.sels(x.SelectionSet, y.SelectionSet)
	}
	for i, x := range a.Fragments {
		if i >= len(b.Fragments) || b.Fragments[i] == nil {
			break
		}
		y := b.Fragments[i]
		if x.Name != y.Name {
			l["name"] = true
		}
		if x.TypeCondition != y.TypeCondition {
			l["type-condition"] = true
		}
		l.varDefs(x.VariableDefinition, y.VariableDefinition)
		l.dirs(x.Directives, y.Directives)
		l.sels(x.SelectionSet, y.SelectionSet)
	}
	return l
}

func jsonRoundTrip(doc *ast.QueryDocument) (text []byte, back *ast.QueryDocument, err error) {
	text, err = json.Marshal(doc)
	if err != nil {
		return nil, nil, err
	}
	back = &ast.QueryDocument{}
	if err = json.Unmarshal(text, back); err != nil {
		return text, nil, err
	}
	return text, back, nil
}

func init() {
	Ops["jsonrt"] = func(a []string) string {
		b, _ := UnhexW(a[0])
		doc, err := parser.ParseQuery(&ast.Source{Input: string(b), Name: "s0"})
		if err != nil {
			return "PARSEERR"
		}
		sx := SexpQuery(doc)
		text, back, err := jsonRoundTrip(doc)
		if err != nil {
			return sx + "|" + HexW(text) + "|E," + HexW([]byte(err.Error())) + "|-"
		}
		s := Sx{NoPos: true}
		s.QueryDoc(back)
		return sx + "|" + HexW(text) + "|" + s.String() + "|" + DocLoss(doc, back).String()
	}
	Ops["jsonrtv"] = func(a []string) string {
		schema, doc, bad := loadPair(a[0], a[1])
		if bad != "" {
			return bad
		}
		verdict := "valid"
		if panicked := func() (p bool) {
			defer func() {
				if recover() != nil {
					p = true
				}
			}()
			if errs := validator.Validate(schema, doc); len(errs) > 0 {
				verdict = "invalid"
			}
			return false
		}(); panicked {
			return "VALPANIC" // a validator panic is C02's business
		}
		text, back, err := jsonRoundTrip(doc)
		if err != nil {
			return verdict + "|" + strconv.Itoa(len(text)) + "|E," + HexW([]byte(err.Error())) + "|-"
		}
		return verdict + "|" + strconv.Itoa(len(text)) + "|ok|" + DocLoss(doc, back).String()
	}
	// jsonrtvv <hex schema> <hex document>: validation alone (valid | invalid | VALPANIC | LOADERR | PARSEERR); a fatal
	// error here (stack overflow of a rule) tells the check that a crash of jsonrtv is the validator's (C02)
	Ops["jsonrtvv"] = func(a []string) string {
		schema, doc, bad := loadPair(a[0], a[1])
		if bad != "" {
			return bad
		}
		verdict := "valid"
		if panicked := func() (p bool) {
			defer func() {
				if recover() != nil {
					p = true
				}
			}()
			if errs := validator.Validate(schema, doc); len(errs) > 0 {
				verdict = "invalid"
			}
			return false
		}(); panicked {
			return "VALPANIC"
		}
		return verdict
	}
	Ops["jsonstrgo"] = func(a []string) string {
		b, _ := UnhexW(a[0])
		out, err := json.Marshal(string(b))
		if err != nil {
			return "E," + HexW([]byte(err.Error()))
		}
		return HexW(out)
	}
	Ops["jsonsango"] = func(a []string) string {
		b, _ := UnhexW(a[0])
		out, err := json.Marshal(string(b))
		if err != nil {
			return "E," + HexW([]byte(err.Error()))
		}
		var s string
		if err := json.Unmarshal(out, &s); err != nil {
			return "E," + HexW([]byte(err.Error()))
		}
		return HexW([]byte(s))
	}
}
