package impl

import (
	"fmt"

	"github.com/vektah/gqlparser/v2/ast"
	"github.com/vektah/gqlparser/v2/gqlerror"
	"github.com/vektah/gqlparser/v2/parser"
)

// ErrObs renders an error the way the model does: E,<line>,<col>,<hex message>; errors without
// location print 0,0.
func ErrObs(err error) string {
	if ge, ok := err.(*gqlerror.Error); ok {
		l, c := 0, 0
		if len(ge.Locations) > 0 {
			l, c = ge.Locations[0].Line, ge.Locations[0].Column
		}
		return fmt.Sprintf("E,%d,%d,%s", l, c, HexW([]byte(ge.Message)))
	}
	return fmt.Sprintf("E,0,0,%s", HexW([]byte(err.Error())))
}

func ParseQueryObs(input string, limit int) string {
	src := &ast.Source{Input: input, Name: "s0"}
	var doc *ast.QueryDocument
	var err error
	if limit < 0 {
		doc, err = parser.ParseQuery(src)
	} else {
		doc, err = parser.ParseQueryWithTokenLimit(src, limit)
	}
	if err != nil {
		return ErrObs(err)
	}
	return SexpQuery(doc)
}

func ParseSchemaObs(input string, limit int) string {
	src := &ast.Source{Input: input, Name: "s0"}
	var doc *ast.SchemaDocument
	var err error
	if limit < 0 {
		doc, err = parser.ParseSchema(src)
	} else {
		doc, err = parser.ParseSchemaWithLimit(src, limit)
	}
	if err != nil {
		return ErrObs(err)
	}
	return SexpSchema(doc)
}

func init() {
	// pq <limit|-1> <hex>   ps <limit|-1> <hex>
	Ops["pq"] = func(a []string) string {
		var lim int
		fmt.Sscan(a[0], &lim)
		b, _ := UnhexW(a[1])
		return ParseQueryObs(string(b), lim)
	}
	Ops["ps"] = func(a []string) string {
		var lim int
		fmt.Sscan(a[0], &lim)
		b, _ := UnhexW(a[1])
		return ParseSchemaObs(string(b), lim)
	}
}
