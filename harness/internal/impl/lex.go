package impl

import (
	"fmt"
	"strings"
	"unicode/utf8"

	"github.com/vektah/gqlparser/v2/ast"
	"github.com/vektah/gqlparser/v2/gqlerror"
	"github.com/vektah/gqlparser/v2/lexer"
)

type Tok struct {
	Kind             int
	Start, End, Line int
	Col              int
	Value            string
}

type LexResult struct {
	Toks    []Tok
	Err     *gqlerror.Error
	ErrLine int
	ErrCol  int
	Fuel    bool
}

// LexAll drives the real lexer to EOF or to the first error.
func LexAll(input string) LexResult {
	l := lexer.New(&ast.Source{Input: input, Name: "t"})
	var res LexResult
	for i := 0; ; i++ {
		if i > len(input)+1 {
			res.Fuel = true // more tokens than bytes+1: the lexer is not making progress
			return res
		}
		tok, err := l.ReadToken()
		if err != nil {
			ge, _ := err.(*gqlerror.Error)
			if ge == nil {
				ge = &gqlerror.Error{Message: err.Error()}
			}
			res.Err = ge
			if len(ge.Locations) > 0 {
				res.ErrLine, res.ErrCol = ge.Locations[0].Line, ge.Locations[0].Column
			}
			return res
		}
		res.Toks = append(res.Toks, Tok{int(tok.Kind), tok.Pos.Start, tok.Pos.End, tok.Pos.Line, tok.Pos.Column, tok.Value})
		if tok.Kind == lexer.EOF {
			return res
		}
	}
}

func (r LexResult) Obs() string {
	var sb strings.Builder
	for i, t := range r.Toks {
		if i > 0 {
			sb.WriteByte(';')
		}
		fmt.Fprintf(&sb, "%d,%d,%d,%d,%d,%s", t.Kind, t.Start, t.End, t.Line, t.Col, HexW([]byte(t.Value)))
	}
	switch {
	case r.Fuel:
		sb.WriteString("|FUEL")
	case r.Err != nil:
		fmt.Fprintf(&sb, "|E,%d,%d,%s", r.ErrLine, r.ErrCol, HexW([]byte(r.Err.Message)))
	default:
		sb.WriteString("|OK")
	}
	return sb.String()
}

func init() {
	Ops["lex"] = func(a []string) string {
		b, ok := UnhexW(a[0])
		if !ok {
			return "bad-hex"
		}
		return LexAll(string(b)).Obs()
	}
	Ops["utf8"] = func(a []string) string {
		b, ok := UnhexW(a[0])
		if !ok {
			return "bad-hex"
		}
		r, w := utf8.DecodeRuneInString(string(b))
		return fmt.Sprintf("%d,%d,%s", r, w, HexW([]byte(string(r))))
	}
}
