package impl

import (
	"fmt"
	"sort"
	"strings"
	"time"

	"github.com/vektah/gqlparser/v2/ast"
	"github.com/vektah/gqlparser/v2/gqlerror"
	"github.com/vektah/gqlparser/v2/parser"
	"github.com/vektah/gqlparser/v2/validator"
)

var noSuggestTwin = map[string]string{
	"FieldsOnCorrectType": "FieldsOnCorrectTypeWithoutSuggestions",
	"KnownArgumentNames":  "KnownArgumentNamesWithoutSuggestions",
	"KnownTypeNames":      "KnownTypeNamesWithoutSuggestions",
	"ValuesOfCorrectType": "ValuesOfCorrectTypeWithoutSuggestions",
}

func errKey(e *gqlerror.Error) string {
	var sb strings.Builder
	sb.WriteString(e.Rule + "\x00" + e.Message)
	for _, l := range e.Locations {
		fmt.Fprintf(&sb, "\x00%d:%d", l.Line, l.Column)
	}
	return sb.String()
}

func sortedKeys(errs gqlerror.List, rule string) []string {
	var out []string
	for _, e := range errs {
		if rule == "" || e.Rule == rule {
			out = append(out, errKey(e))
		}
	}
	sort.Strings(out)
	return out
}

// firstDifferingRule names the (alphabetically first) rule whose errors differ between two runs.
func firstDifferingRule(a, b gqlerror.List) string {
	names := map[string]bool{}
	for _, e := range a {
		names[e.Rule] = true
	}
	for _, e := range b {
		names[e.Rule] = true
	}
	var ns []string
	for n := range names {
		ns = append(ns, n)
	}
	sort.Strings(ns)
	for _, n := range ns {
		if strings.Join(sortedKeys(a, n), "\x01") != strings.Join(sortedKeys(b, n), "\x01") {
			return n
		}
	}
	return "order-only"
}

func freshDoc(text string) *ast.QueryDocument {
	d, err := parser.ParseQuery(&ast.Source{Input: text, Name: "q"})
	if err != nil {
		return nil
	}
	return d
}

// ValProps checks, on the REAL validator, the composition laws of C18 and the repeatability laws of
// C10 for one (schema, document) pair. Reply: "OK <n errors> <ns>" or "VIOL <sig> <hex detail>".
func ValProps(schemaText, docText string) string {
	schema, err := LoadSchema(schemaText)
	if err != nil {
		return "LOADERR"
	}
	if freshDoc(docText) == nil {
		return "PARSEERR"
	}
	viol := func(sig, detail string) string { return "VIOL " + sig + " " + HexW([]byte(detail)) }
	std := AllRuleVars[:27] // the rules registered by default, in registration order
	t0 := time.Now()
	def := validator.Validate(schema, freshDoc(docText))
	ns := time.Since(t0).Nanoseconds()
	// C10: a second fresh parse, and the SAME document object validated again
	d2 := freshDoc(docText)
	again := validator.Validate(schema, d2)
	if ValErrsObs(again) != ValErrsObs(def) {
		return viol("revalidate-fresh-parse-differs", ValErrsObs(def)+" vs "+ValErrsObs(again))
	}
	same := validator.Validate(schema, d2)
	if ValErrsObs(same) != ValErrsObs(def) {
		sig := "revalidate-same-document-differs:" + firstDifferingRule(def, same)
		if hasSelfReachingFragment(d2) {
			sig += ":self-reaching-fragment"
		}
		return viol(sig, ValErrsObs(def)+" vs "+ValErrsObs(same))
	}
	// C18: the default set is the explicit list of all specified rules
	explicit := validator.Validate(schema, freshDoc(docText), std...)
	if ValErrsObs(explicit) != ValErrsObs(def) {
		return viol("default-differs-from-explicit-list", ValErrsObs(def)+" vs "+ValErrsObs(explicit))
	}
	// every error is tagged with a rule of the set
	for _, e := range def {
		if _, ok := RuleByName[e.Rule]; !ok || e.Rule == "" {
			return viol("error-without-rule", e.Message)
		}
	}
	// union law: each rule alone reports exactly its share
	total := 0
	for _, r := range std {
		alone := validator.Validate(schema, freshDoc(docText), r)
		a, b := sortedKeys(alone, ""), sortedKeys(def, r.Name)
		total += len(a)
		if strings.Join(a, "\x01") != strings.Join(b, "\x01") {
			return viol("rule-alone-differs-from-rule-in-set:"+r.Name, fmt.Sprintf("alone=%q in-set=%q", a, b))
		}
		for _, e := range alone {
			if e.Rule != r.Name {
				return viol("error-tagged-with-other-rule:"+r.Name, e.Rule)
			}
		}
	}
	if total != len(def) {
		return viol("union-size-differs", fmt.Sprintf("%d vs %d", total, len(def)))
	}
	// the without-suggestions variants: same errors, suffix removed
	for stdName, twinName := range noSuggestTwin {
		a := validator.Validate(schema, freshDoc(docText), RuleByName[stdName])
		b := validator.Validate(schema, freshDoc(docText), RuleByName[twinName])
		if len(a) != len(b) {
			return viol("nosuggest-count-differs:"+stdName, fmt.Sprintf("%d vs %d", len(a), len(b)))
		}
		for i := range a {
			msg := a[i].Message
			if j := strings.Index(msg, " Did you mean"); j >= 0 {
				msg = msg[:j]
			}
			if msg != b[i].Message || fmt.Sprint(a[i].Locations) != fmt.Sprint(b[i].Locations) || b[i].Rule != twinName {
				return viol("nosuggest-error-differs:"+stdName, fmt.Sprintf("%q@%v vs %q@%v", a[i].Message, a[i].Locations, b[i].Message, b[i].Locations))
			}
		}
	}
	return fmt.Sprintf("OK %d %d %s", len(def), ns, ValErrsObs(def))
}

func init() {
	// valprops <hex schema> <hex document>
	Ops["valprops"] = func(a []string) string {
		s, _ := UnhexW(a[0])
		d, _ := UnhexW(a[1])
		return ValProps(string(s), string(d))
	}
	// valtime <hex schema> <hex document>: "<n errors> <ns>" for the default rule set
	Ops["valtime"] = func(a []string) string {
		s, _ := UnhexW(a[0])
		d, _ := UnhexW(a[1])
		schema, err := LoadSchema(string(s))
		if err != nil {
			return "LOADERR"
		}
		doc := freshDoc(string(d))
		if doc == nil {
			return "PARSEERR"
		}
		t0 := time.Now()
		errs := validator.Validate(schema, doc)
		return fmt.Sprintf("%d %d", len(errs), time.Since(t0).Nanoseconds())
	}
}

// hasSelfReachingFragment: some fragment definition reaches a spread of itself (directly, through
// other fragments, at any nesting depth).
func hasSelfReachingFragment(doc *ast.QueryDocument) bool {
	spreads := map[string][]string{}
	var collect func(ss ast.SelectionSet, into *[]string)
	collect = func(ss ast.SelectionSet, into *[]string) {
		for _, s := range ss {
			switch s := s.(type) {
			case *ast.Field:
				collect(s.SelectionSet, into)
			case *ast.InlineFragment:
				collect(s.SelectionSet, into)
			case *ast.FragmentSpread:
				*into = append(*into, s.Name)
			}
		}
	}
	for _, f := range doc.Fragments {
		var xs []string
		collect(f.SelectionSet, &xs)
		spreads[f.Name] = xs
	}
	for start := range spreads {
		seen := map[string]bool{}
		stack := append([]string(nil), spreads[start]...)
		for len(stack) > 0 {
			n := stack[len(stack)-1]
			stack = stack[:len(stack)-1]
			if n == start {
				return true
			}
			if seen[n] {
				continue
			}
			seen[n] = true
			stack = append(stack, spreads[n]...)
		}
	}
	return false
}
