// Package impl runs the real library (linked from /repo's working tree) and renders
// canonical observations in the same wire format as the Lean driver.
package impl

import (
	"bufio"
	"encoding/hex"
	"fmt"
	"io"
	"os"
	"runtime/debug"
	"strings"
)

func HexW(b []byte) string {
	if len(b) == 0 {
		return "-"
	}
	return hex.EncodeToString(b)
}

func UnhexW(s string) ([]byte, bool) {
	if s == "-" {
		return nil, true
	}
	b, err := hex.DecodeString(s)
	return b, err == nil
}

type Op func(args []string) string

var Ops = map[string]Op{}

// Call runs one op with panics turned into an observation.
func Call(op string, args []string) (out string) {
	f, ok := Ops[op]
	if !ok {
		return "bad-op"
	}
	defer func() {
		if r := recover(); r != nil {
			out = "PANIC:" + hex.EncodeToString([]byte(fmt.Sprint(r)))
		}
	}()
	return f(args)
}

// WorkerLoop is `vcheck -worker`: one request per line on stdin, one flushed reply per line.
func WorkerLoop() {
	debug.SetMaxStack(256 << 20) // a runaway recursion dies quickly instead of eating 1 GB
	rd := bufio.NewReaderSize(os.Stdin, 1<<20)
	wr := bufio.NewWriter(os.Stdout)
	for {
		line, err := rd.ReadString('\n')
		line = strings.TrimRight(line, "\r\n")
		if line != "" {
			f := strings.Fields(line)
			wr.WriteString(Call(f[0], f[1:]))
			wr.WriteByte('\n')
			wr.Flush()
		}
		if err != nil {
			if err != io.EOF {
				os.Exit(3)
			}
			return
		}
	}
}
