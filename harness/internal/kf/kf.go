// Package kf reads /verif/KNOWN_FINDINGS.txt. Lines:
//
//	known: property=Cnn sig=<classifier> <what fails, with the concrete input>
//	fixed: property=Cnn <commit> <what failed>
//
// The file is never written at run time. `fixed:` lines suppress nothing.
package kf

import (
	"bufio"
	"os"
	"strings"
)

type Entry struct {
	Prop string
	Sig  string
	Text string
}

type File struct{ Known []Entry }

func Load(path string) *File {
	f := &File{}
	fh, err := os.Open(path)
	if err != nil {
		return f
	}
	defer fh.Close()
	sc := bufio.NewScanner(fh)
	sc.Buffer(make([]byte, 1<<20), 1<<20)
	for sc.Scan() {
		line := strings.TrimSpace(sc.Text())
		if !strings.HasPrefix(line, "known:") {
			continue
		}
		rest := strings.TrimSpace(strings.TrimPrefix(line, "known:"))
		parts := strings.SplitN(rest, " ", 3)
		if len(parts) < 2 || !strings.HasPrefix(parts[0], "property=") || !strings.HasPrefix(parts[1], "sig=") {
			continue
		}
		e := Entry{Prop: strings.TrimPrefix(parts[0], "property="), Sig: strings.TrimPrefix(parts[1], "sig=")}
		if len(parts) == 3 {
			e.Text = parts[2]
		}
		f.Known = append(f.Known, e)
	}
	return f
}

func (f *File) Match(prop, sig string) *Entry {
	for i := range f.Known {
		if f.Known[i].Prop == prop && f.Known[i].Sig == sig {
			return &f.Known[i]
		}
	}
	return nil
}
