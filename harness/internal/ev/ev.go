// Package ev writes /verif/evidence/<id>.json (schema: /root/.vp/EVIDENCE.schema.json).
package ev

import (
	"encoding/json"
	"hash/fnv"
	"os"
	"path/filepath"
	"sort"
	"sync"
	"time"
)

type Evidence struct {
	mu         sync.Mutex
	Prop       string
	Tier       string
	Seed       uint64
	start      time.Time
	Evals      int
	distinct   map[uint64]struct{}
	Rule       string
	Samples    []any
	Extra      map[string]any
	Counters   map[string]int
	Assume     []string
	Violations int
	Exhaustive bool
	Traces     int // correspondence cases compared with the model
}

func New(prop, tier string, seed uint64) *Evidence {
	return &Evidence{Prop: prop, Tier: tier, Seed: seed, start: time.Now(), distinct: map[uint64]struct{}{},
		Extra: map[string]any{}, Counters: map[string]int{}}
}

// Case records one explored case by its canonical observation; nontrivial per the property's rule.
func (e *Evidence) Case(obs string, nontrivial bool) {
	e.mu.Lock()
	defer e.mu.Unlock()
	e.Evals++
	if nontrivial {
		h := fnv.New64a()
		h.Write([]byte(obs))
		e.distinct[h.Sum64()] = struct{}{}
	}
}

func (e *Evidence) Count(key string, n int) {
	e.mu.Lock()
	e.Counters[key] += n
	e.mu.Unlock()
}

func (e *Evidence) Sample(s any) {
	e.mu.Lock()
	if len(e.Samples) < 12 {
		e.Samples = append(e.Samples, s)
	}
	e.mu.Unlock()
}

type Proof struct {
	Obligations int
	Discharged  int
	CheckerCmd  string
	Trusted     []string
	Theorems    []map[string]any
	Failed      []string
}

func (e *Evidence) Write(dir string, pr *Proof) error {
	e.mu.Lock()
	defer e.mu.Unlock()
	cov := map[string]any{
		"evaluations":                   e.Evals,
		"distinct_nontrivial":           len(e.distinct),
		"rule":                          e.Rule,
		"samples":                       e.Samples,
		"traces_validated_against_impl": e.Traces,
		"exhaustive":                    e.Exhaustive,
	}
	if e.Samples == nil {
		cov["samples"] = []any{}
	}
	keys := make([]string, 0, len(e.Counters))
	for k := range e.Counters {
		keys = append(keys, k)
	}
	sort.Strings(keys)
	cnt := map[string]int{}
	for _, k := range keys {
		cnt[k] = e.Counters[k]
	}
	cov["counters"] = cnt
	for k, v := range e.Extra {
		cov[k] = v
	}
	if pr != nil {
		cov["obligations"] = pr.Obligations
		cov["discharged"] = pr.Discharged
		cov["checker_cmd"] = pr.CheckerCmd
		cov["trusted_base"] = pr.Trusted
		cov["theorems"] = pr.Theorems
		if len(pr.Failed) > 0 {
			cov["failed_obligations"] = pr.Failed
		}
	}
	doc := map[string]any{
		"property_id": e.Prop,
		"tier":        e.Tier,
		"seed":        int64(e.Seed & 0x7fffffffffffffff),
		"level":       "proof",
		"coverage":    cov,
		"assumptions": e.Assume,
		"wall_s":      time.Since(e.start).Seconds(),
		"violations":  e.Violations,
	}
	if e.Assume == nil {
		doc["assumptions"] = []string{}
	}
	b, err := json.MarshalIndent(doc, "", " ")
	if err != nil {
		return err
	}
	os.MkdirAll(dir, 0o755)
	return os.WriteFile(filepath.Join(dir, e.Prop+".json"), append(b, '\n'), 0o644)
}
