module verifharness

go 1.22

require github.com/vektah/gqlparser/v2 v2.5.0

replace github.com/vektah/gqlparser/v2 => /repo
