module verifharness

go 1.22

require (
	github.com/vektah/gqlparser/v2 v2.5.0
	gopkg.in/yaml.v3 v3.0.1
)

require github.com/agnivade/levenshtein v1.2.1 // indirect

replace github.com/vektah/gqlparser/v2 => /var/tmp/repo-snap13
