// vextract regenerates the source-derived Lean tables of package extract:
//
//	vextract -repo /repo -lean /verif/lean [errsites] [stores]     (default: all)
package main

import (
	"flag"
	"fmt"
	"os"

	"verifharness/internal/extract"
)

func main() {
	repo := flag.String("repo", "/repo", "library source tree")
	lean := flag.String("lean", "/verif/lean", "lake project directory")
	flag.Parse()
	which := flag.Args()
	if len(which) == 0 {
		which = []string{"errsites", "stores"}
	}
	code := 0
	for _, w := range which {
		var err error
		switch w {
		case "errsites":
			err = extract.RunExtractErrSites(*repo, *lean)
		case "stores":
			err = extract.RunExtractStores(*repo, *lean)
		default:
			err = fmt.Errorf("unknown table %q", w)
		}
		if err != nil {
			fmt.Fprintln(os.Stderr, "vextract:", w+":", err)
			code = 1
		}
	}
	os.Exit(code)
}
