// vcheck: `vcheck -prop C03 -tier quick` runs one property check; `vcheck -worker` is the
// subprocess that executes the real library on request lines (process isolation, DESIGN §3.3).
package main

import (
	"flag"
	"fmt"
	"os"
	"runtime/debug"
	"strconv"
	"strings"

	"verifharness/internal/impl"
	"verifharness/internal/props"
)

func main() {
	worker := flag.Bool("worker", false, "run as worker")
	prop := flag.String("prop", "", "property id")
	tier := flag.String("tier", "quick", "quick|thorough")
	replay := flag.String("replay", "", "replay file")
	extractOnly := flag.Bool("extract", false, "regenerate lean/GqlModel/Gen from /repo and exit")
	flag.Parse()
	if *worker {
		impl.WorkerLoop()
		return
	}
	if *extractOnly {
		if msg := props.RunExtractAll(); msg != "" {
			fmt.Fprintln(os.Stderr, "extract:", msg)
			os.Exit(2)
		}
		return
	}
	if t := os.Getenv("VERIF_TIER"); t != "" && *tier == "" {
		*tier = t
	}
	seed := uint64(20260928)
	if s := os.Getenv("VERIF_SEED"); s != "" {
		if v, err := strconv.ParseUint(s, 10, 64); err == nil {
			seed = v
		}
	}
	if *replay != "" {
		os.Exit(props.Replay(*prop, *replay))
	}
	chk, ok := props.Checks[*prop]
	if !ok {
		fmt.Fprintln(os.Stderr, "unknown property", *prop)
		os.Exit(2)
	}
	c := props.NewCtx(*prop, *tier, seed)
	c.RunProofs()
	func() {
		// The harness calls a few cheap library functions in its own process (token counting, corpus
		// preparation). If the LIBRARY panics there, that is a violation of totality, not a harness
		// failure: report it instead of dying with exit status 2.
		defer func() {
			if r := recover(); r != nil {
				stack := string(debug.Stack())
				if !strings.Contains(stack, "github.com/vektah/gqlparser/v2/") && !strings.Contains(stack, "/repo/") {
					panic(r) // a bug of the harness itself
				}
				c.Report("runtime", "library-panicked-inside-the-harness", fmt.Sprintf("panic: %v\n%s", r, stack), map[string]any{"panic": fmt.Sprint(r), "stack": stack})
			}
		}()
		chk(c)
	}()
	os.Exit(c.Finish())
}
