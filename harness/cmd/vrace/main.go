// vrace: the runtime part of property C11. Built with `go build -race -tags verif`.
//
// For each of -schemas generated schemas: load it once, take a deep canonical snapshot, compute
// the sequential result of every operation of a pool (each operation has its own document text and
// its own variables), then run -histories histories of 2…-maxg goroutines issuing random mixes of
//
//	validate   gqlparser.LoadQuery(schema, text)               (parse + validate, own document)
//	vars       validator.VariableValues(schema, op, vars)       (own document, own variables map)
//	argmap     Field.ArgumentMap / Directive.ArgumentMap        (own document, own variables map)
//	format     formatter.FormatSchema(schema)                   (the shared schema itself)
//
// all on the ONE shared schema, compare every concurrent result with the sequential one and the
// snapshot after every history with the one before. Data races are reported by the race detector
// on stderr ("WARNING: DATA RACE"); this program's own bookkeeping is race-free by construction
// (per-goroutine result slots, a WaitGroup, a start barrier).
//
// stdout:  SCHEMA <i> types=<n> ops=<n> snapshot=<hash> lines=<n>
//
//	DIFF <kind> <op id> <hex sequential> <hex concurrent>
//	NONDET <kind> <op id>      (the concurrent result differs from the first sequential one but is one of
//	                            the results the same call gives when simply repeated sequentially: C10's business)
//	MUTATED <hex path> <hex before> <hex after>
//	SELFTEST <ok|FAILED …>
//	DONE histories=<n> calls=<n> maxg=<n> diffs=<n> mutated=<n> nondet=<n> validate=<n> vars=<n> argmap=<n> format=<n>
//
// `vrace -selfrace` only performs one deliberate unsynchronised write/read pair on a scratch schema, so that the
// caller can tell a live race detector from a binary built without it.
package main

import (
	"bytes"
	"encoding/hex"
	"flag"
	"fmt"
	"os"
	"runtime"
	"strings"
	"sync"

	"github.com/vektah/gqlparser/v2"
	"github.com/vektah/gqlparser/v2/ast"
	"github.com/vektah/gqlparser/v2/formatter"
	"github.com/vektah/gqlparser/v2/parser"
	"github.com/vektah/gqlparser/v2/validator"

	"verifharness/internal/gen"
	"verifharness/internal/impl"
	"verifharness/internal/rng"
)

type opSpec struct {
	id      int
	kind    string // validate | vars | argmap | format
	doc     string
	varsSx  string // variables as a GoVal S-expression (parsed afresh at every execution: a private copy)
	fmtOpts int
	seq     string // sequential result
}

func freshVars(sx string) map[string]interface{} {
	if sx == "" {
		return map[string]interface{}{}
	}
	n, err := impl.ParseSexp(sx)
	if err != nil {
		return map[string]interface{}{}
	}
	v, err := impl.GoValFromSexp(n)
	if err != nil {
		return map[string]interface{}{}
	}
	m, _ := v.(map[string]interface{})
	if m == nil {
		m = map[string]interface{}{}
	}
	return m
}

func guarded(f func() string) (out string) {
	defer func() {
		if r := recover(); r != nil {
			out = "PANIC " + fmt.Sprint(r)
		}
	}()
	return f()
}

func ownDoc(schema *ast.Schema, text string) (*ast.QueryDocument, string) {
	doc, err := parser.ParseQuery(&ast.Source{Input: text, Name: "own.graphql"})
	if err != nil {
		return nil, "PARSE " + err.Error()
	}
	if errs := validator.Validate(schema, doc); len(errs) > 0 {
		return nil, "INVALID " + impl.ValErrsObs(errs)
	}
	return doc, ""
}

func argMaps(sels ast.SelectionSet, vars map[string]interface{}, seen map[*ast.FragmentDefinition]bool, out *[]string) {
	dirs := func(ds ast.DirectiveList) {
		for _, d := range ds {
			if d.Definition != nil {
				*out = append(*out, "@"+d.Name+" "+guarded(func() string { return impl.SexpGoVal(d.ArgumentMap(vars)) }))
			}
		}
	}
	for _, s := range sels {
		switch x := s.(type) {
		case *ast.Field:
			if x.Definition != nil {
				*out = append(*out, x.Name+" "+guarded(func() string { return impl.SexpGoVal(x.ArgumentMap(vars)) }))
			}
			dirs(x.Directives)
			argMaps(x.SelectionSet, vars, seen, out)
		case *ast.InlineFragment:
			dirs(x.Directives)
			argMaps(x.SelectionSet, vars, seen, out)
		case *ast.FragmentSpread:
			dirs(x.Directives)
			if x.Definition != nil && !seen[x.Definition] {
				seen[x.Definition] = true
				argMaps(x.Definition.SelectionSet, vars, seen, out)
			}
		}
	}
}

func (o *opSpec) exec(schema *ast.Schema) string {
	return guarded(func() string {
		switch o.kind {
		case "validate":
			doc, errs := gqlparser.LoadQuery(schema, o.doc)
			if doc == nil {
				return impl.ValErrsObs(errs)
			}
			return "OK " + impl.LinksObs(doc)
		case "vars":
			doc, bad := ownDoc(schema, o.doc)
			if doc == nil {
				return bad
			}
			vars := freshVars(o.varsSx)
			res, err := validator.VariableValues(schema, doc.Operations[0], vars)
			if err != nil {
				return "ERR " + err.Error() + " | vars after: " + impl.SexpGoVal(vars)
			}
			return "OK " + impl.SexpGoVal(res) + " | vars after: " + impl.SexpGoVal(vars)
		case "argmap":
			doc, bad := ownDoc(schema, o.doc)
			if doc == nil {
				return bad
			}
			vars := freshVars(o.varsSx)
			if res, err := validator.VariableValues(schema, doc.Operations[0], vars); err == nil {
				vars = res
			}
			var out []string
			for _, op := range doc.Operations {
				argMaps(op.SelectionSet, vars, map[*ast.FragmentDefinition]bool{}, &out)
			}
			return strings.Join(out, ";")
		case "format":
			var buf bytes.Buffer
			var opts []formatter.FormatterOption
			if o.fmtOpts&1 != 0 {
				opts = append(opts, formatter.WithBuiltin())
			}
			if o.fmtOpts&2 != 0 {
				opts = append(opts, formatter.WithoutDescription())
			}
			if o.fmtOpts&4 != 0 {
				opts = append(opts, formatter.WithCompacted())
			}
			if o.fmtOpts&8 != 0 {
				opts = append(opts, formatter.WithComments())
			}
			formatter.NewFormatter(&buf, opts...).FormatSchema(schema)
			return buf.String()
		}
		return "?"
	})
}

func hx(s string) string {
	if s == "" {
		return "-"
	}
	return hex.EncodeToString([]byte(s))
}

func main() {
	seed := flag.Uint64("seed", 20260928, "seed")
	histories := flag.Int("histories", 200, "histories in total")
	nSchemas := flag.Int("schemas", 4, "generated schemas (histories are split among them)")
	maxG := flag.Int("maxg", 32, "maximum goroutines per history")
	poolSize := flag.Int("pool", 80, "operations per schema")
	procs := flag.Int("procs", 0, "GOMAXPROCS (0 = default)")
	selftest := flag.Bool("selftest", false, "additionally mutate a COPY of the schema on purpose and check that the snapshot sees it")
	selfrace := flag.Bool("selfrace", false, "perform one deliberate data race on a scratch schema and exit")
	flag.Parse()
	if *selfrace {
		scratch := &ast.Schema{Types: map[string]*ast.Definition{"Q": {Name: "Q"}}}
		done := make(chan struct{})
		go func() { scratch.Types["Q"].Description = "written"; close(done) }()
		_ = scratch.Types["Q"].Description
		<-done
		fmt.Println("SELFRACE done")
		return
	}
	if *procs > 0 {
		runtime.GOMAXPROCS(*procs)
	}
	r := rng.New(*seed)
	counts := map[string]int{}
	calls, diffs, mutated, hdone, gmax, nondet := 0, 0, 0, 0, 0, 0
	for si := 0; si < *nSchemas; si++ {
		rs := r.Fork(uint64(si))
		gs := gen.GenSchema(rs, 3+si*3%12)
		sdl := gs.SDL()
		schema, err := gqlparser.LoadSchema(&ast.Source{Name: "schema.graphql", Input: sdl})
		if err != nil {
			fmt.Printf("SCHEMA %d load-error %s\n", si, hx(err.Error()))
			continue
		}
		// the pool (prepared sequentially: the generators are not meant for concurrent use)
		var pool []*opSpec
		for i := 0; i < *poolSize; i++ {
			ro := rs.Fork(uint64(1000 + i))
			o := &opSpec{id: si*100000 + i}
			switch i % 8 {
			case 0, 1:
				o.kind, o.doc = "validate", gen.GenDoc(ro, gs, 1+ro.Intn(12)).Text
			case 2:
				o.kind, o.doc = "validate", gen.InjectDocFault(ro, gs, 1+ro.Intn(8)).Doc
			case 3:
				o.kind, o.doc = "validate", gen.GenBlindDocument(ro, gs, 1+ro.Intn(8))
			case 4, 5:
				o.kind = "vars"
				o.doc = gen.GenDocWith(ro, gs, 2+ro.Intn(10), gen.DocOptions{NoDeviations: true}).Text
				v, _ := gen.GenVars(ro, gs, o.doc, "", i%16 < 8)
				o.varsSx = impl.SexpGoVal(v)
			case 6:
				o.kind = "argmap"
				o.doc = gen.GenDocWith(ro, gs, 2+ro.Intn(10), gen.DocOptions{NoDeviations: true}).Text
				v, _ := gen.GenVars(ro, gs, o.doc, "", true)
				o.varsSx = impl.SexpGoVal(v)
			default:
				o.kind, o.fmtOpts = "format", ro.Intn(16)
			}
			pool = append(pool, o)
		}
		before := Snapshot(schema)
		for _, o := range pool {
			o.seq = o.exec(schema)
		}
		// the sequential baseline itself must not have changed the schema
		if p, b, a := snapDiff(before, Snapshot(schema)); p != "" {
			mutated++
			fmt.Printf("MUTATED %s %s %s\n", hx("sequential: "+p), hx(b), hx(a))
			before = Snapshot(schema)
		}
		cls := map[string]int{}
		for _, o := range pool {
			switch {
			case strings.HasPrefix(o.seq, "PANIC"):
				cls["panic"]++
			case strings.HasPrefix(o.seq, "INVALID"), strings.HasPrefix(o.seq, "PARSE"):
				cls["rejected"]++
			case strings.HasPrefix(o.seq, "ERR"):
				cls["error"]++
			case o.kind == "validate" && !strings.HasPrefix(o.seq, "OK"):
				cls["validation-errors"]++
			default:
				cls["ok"]++
			}
		}
		fmt.Printf("SCHEMA %d types=%d ops=%d snapshot=%s lines=%d ok=%d validation-errors=%d coercion-errors=%d rejected=%d panics=%d\n", si, len(schema.Types), len(pool), snapHash(before), len(before),
			cls["ok"], cls["validation-errors"], cls["error"], cls["rejected"], cls["panic"])
		nh := *histories / *nSchemas
		if si < *histories%*nSchemas {
			nh++
		}
		for h := 0; h < nh; h++ {
			rh := rs.Fork(uint64(500000 + h))
			g := 2 + rh.Intn(*maxG-1)
			if g > gmax {
				gmax = g
			}
			plan := make([][]*opSpec, g)
			results := make([][]string, g)
			for gi := range plan {
				k := 1 + rh.Intn(3)
				for j := 0; j < k; j++ {
					plan[gi] = append(plan[gi], pool[rh.Intn(len(pool))])
				}
				results[gi] = make([]string, len(plan[gi]))
			}
			var wg sync.WaitGroup
			startCh := make(chan struct{})
			for gi := range plan {
				wg.Add(1)
				go func(gi int) {
					defer wg.Done()
					<-startCh
					for j, o := range plan[gi] {
						results[gi][j] = o.exec(schema)
					}
				}(gi)
			}
			close(startCh)
			wg.Wait()
			hdone++
			for gi := range plan {
				for j, o := range plan[gi] {
					calls++
					counts[o.kind]++
					if results[gi][j] != o.seq {
						// is the call deterministic at all when repeated alone?
						same := false
						for rep := 0; rep < 30 && !same; rep++ {
							same = o.exec(schema) == results[gi][j]
						}
						if same {
							nondet++
							fmt.Printf("NONDET %s %d\n", o.kind, o.id)
						} else {
							diffs++
							fmt.Printf("DIFF %s %d %s %s\n", o.kind, o.id, hx(clipS(o.seq)), hx(clipS(results[gi][j])))
						}
					}
				}
			}
			after := Snapshot(schema)
			if p, b, a := snapDiff(before, after); p != "" {
				mutated++
				fmt.Printf("MUTATED %s %s %s\n", hx(p), hx(b), hx(a))
				before = after
			}
		}
		if *selftest && si == 0 {
			// the observers must be able to see a mutation: append into a schema-owned slice and
			// annotate a default value, on this schema, AFTER all histories of it are done
			probe := Snapshot(schema)
			ok := true
			if q := schema.Query; q != nil && len(q.Fields) > 0 {
				saved := q.Fields
				q.Fields = append(q.Fields, &ast.FieldDefinition{Name: "zz"})
				if p, _, _ := snapDiff(probe, Snapshot(schema)); p == "" {
					ok = false
				}
				q.Fields = saved
			}
			for _, d := range schema.Types {
				for _, f := range d.Fields {
					for _, a := range f.Arguments {
						if a.DefaultValue != nil && ok {
							a.DefaultValue.ExpectedType = a.Type
							if p, _, _ := snapDiff(probe, Snapshot(schema)); p == "" {
								ok = false
							}
							a.DefaultValue.ExpectedType = nil
						}
					}
				}
			}
			if ok {
				fmt.Println("SELFTEST ok")
			} else {
				fmt.Println("SELFTEST FAILED the snapshot does not see a deliberate mutation")
			}
		}
	}
	fmt.Printf("DONE histories=%d calls=%d maxg=%d diffs=%d mutated=%d nondet=%d validate=%d vars=%d argmap=%d format=%d\n",
		hdone, calls, gmax, diffs, mutated, nondet, counts["validate"], counts["vars"], counts["argmap"], counts["format"])
	os.Stdout.Sync()
}

func clipS(s string) string {
	if len(s) > 2000 {
		return s[:2000] + "…"
	}
	return s
}
