package main

// Deep canonical snapshot of a loaded *ast.Schema by reflection: every field of every node reachable
// from the schema (types, fields, arguments, default values INCLUDING their annotation fields
// Definition / ExpectedType / VariableDefinition, directive lists, positions, comments, relation
// lists), maps with sorted keys, slices with length, capacity and the identity of their backing
// array, pointers with their identity (numbered in order of first visit, so the SHAPE of the pointer
// graph is part of the snapshot: replacing a node by an equal copy, or re-pointing an alias, shows).
// One line per scalar / header: "<path> = <value>".

import (
	"crypto/sha256"
	"encoding/hex"
	"fmt"
	"reflect"
	"sort"
	"strings"
)

type snapper struct {
	ptrIDs map[uintptr]int
	arrIDs map[uintptr]int
	lines  []string
}

func (s *snapper) emit(path, val string) { s.lines = append(s.lines, path+" = "+val) }

func (s *snapper) walk(path string, v reflect.Value) {
	switch v.Kind() {
	case reflect.Ptr:
		if v.IsNil() {
			s.emit(path, "nil")
			return
		}
		p := v.Pointer()
		if id, ok := s.ptrIDs[p]; ok {
			s.emit(path, fmt.Sprintf("ptr#%d (seen)", id))
			return
		}
		id := len(s.ptrIDs) + 1
		s.ptrIDs[p] = id
		s.emit(path, fmt.Sprintf("ptr#%d", id))
		s.walk(path, v.Elem())
	case reflect.Interface:
		if v.IsNil() {
			s.emit(path, "nil interface")
			return
		}
		s.emit(path, "interface "+v.Elem().Type().String())
		s.walk(path, v.Elem())
	case reflect.Struct:
		t := v.Type()
		for i := 0; i < v.NumField(); i++ {
			s.walk(path+"."+t.Field(i).Name, v.Field(i))
		}
	case reflect.Slice:
		if v.IsNil() {
			s.emit(path, "nil slice")
			return
		}
		arr := v.Pointer()
		id, ok := s.arrIDs[arr]
		if !ok {
			id = len(s.arrIDs) + 1
			s.arrIDs[arr] = id
		}
		s.emit(path, fmt.Sprintf("slice len=%d cap=%d array#%d", v.Len(), v.Cap(), id))
		for i := 0; i < v.Len(); i++ {
			s.walk(fmt.Sprintf("%s[%d]", path, i), v.Index(i))
		}
		// what sits in the spare capacity is memory the schema owns too
		if v.Cap() > v.Len() {
			full := v.Slice(0, v.Cap())
			for i := v.Len(); i < v.Cap(); i++ {
				s.walk(fmt.Sprintf("%s[spare %d]", path, i), full.Index(i))
			}
		}
	case reflect.Map:
		if v.IsNil() {
			s.emit(path, "nil map")
			return
		}
		s.emit(path, fmt.Sprintf("map len=%d", v.Len()))
		keys := v.MapKeys()
		sort.Slice(keys, func(i, j int) bool { return fmt.Sprint(keys[i].Interface()) < fmt.Sprint(keys[j].Interface()) })
		for _, k := range keys {
			s.walk(fmt.Sprintf("%s[%q]", path, fmt.Sprint(k.Interface())), v.MapIndex(k))
		}
	case reflect.String:
		str := v.String()
		if len(str) > 120 {
			h := sha256.Sum256([]byte(str))
			s.emit(path, fmt.Sprintf("string len=%d sha=%s", len(str), hex.EncodeToString(h[:8])))
		} else {
			s.emit(path, fmt.Sprintf("%q", str))
		}
	case reflect.Bool:
		s.emit(path, fmt.Sprint(v.Bool()))
	case reflect.Int, reflect.Int8, reflect.Int16, reflect.Int32, reflect.Int64:
		s.emit(path, fmt.Sprint(v.Int()))
	case reflect.Uint, reflect.Uint8, reflect.Uint16, reflect.Uint32, reflect.Uint64:
		s.emit(path, fmt.Sprint(v.Uint()))
	case reflect.Float32, reflect.Float64:
		s.emit(path, fmt.Sprint(v.Float()))
	default:
		s.emit(path, "<"+v.Kind().String()+">")
	}
}

// Snapshot returns the canonical lines of x (a pointer to the root).
func Snapshot(x interface{}) []string {
	s := &snapper{ptrIDs: map[uintptr]int{}, arrIDs: map[uintptr]int{}}
	s.walk("schema", reflect.ValueOf(x))
	return s.lines
}

func snapHash(lines []string) string {
	h := sha256.New()
	for _, l := range lines {
		h.Write([]byte(l))
		h.Write([]byte{'\n'})
	}
	return hex.EncodeToString(h.Sum(nil)[:8])
}

// snapDiff returns the path, old and new value of the first difference ("" if equal).
func snapDiff(a, b []string) (path, before, after string) {
	n := len(a)
	if len(b) < n {
		n = len(b)
	}
	split := func(l string) (string, string) {
		if i := strings.Index(l, " = "); i >= 0 {
			return l[:i], l[i+3:]
		}
		return l, ""
	}
	for i := 0; i < n; i++ {
		if a[i] != b[i] {
			pa, va := split(a[i])
			pb, vb := split(b[i])
			if pa == pb {
				return pa, va, vb
			}
			return pa, a[i], b[i]
		}
	}
	if len(a) != len(b) {
		return "(number of nodes)", fmt.Sprint(len(a)), fmt.Sprint(len(b))
	}
	return "", "", ""
}
